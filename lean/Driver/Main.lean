/-
  Model driver: reads protocol lines `op \t fmt \t payload [\t ...]` on stdin and prints what the MODEL
  computes, one line per input line, in the same canonical text the Rust harness prints for the real code.
-/
import Driver.Codec
import NarseseModel.PegSem
import NarseseModel.PegWF
import NarseseModel.EDoors
import Proofs.RT.Top
import Proofs.LRT.Bool
import Proofs.C03.FoldValue
import Proofs.MRT.Spell
import Proofs.Typst.ValueInj
set_option autoImplicit false

namespace Narsese.Driver
open Narsese

def efmtOf : String → Except String EFormat
  | "ascii" => .ok Gen.asciiE | "latex" => .ok Gen.latexE | "han" => .ok Gen.hanE
  | f => .error s!"unknown format {f}"
def lfmtOf : String → Except String LFormat
  | "ascii" => .ok Gen.asciiL | "latex" => .ok Gen.latexL | "han" => .ok Gen.hanL
  | f => .error s!"unknown format {f}"

def showRes {α : Type} (p : α → String) : Res α → String
  | .ok a => s!"ok {p a}"
  | .err => "err"
  | .panic => "panic"
  | .fuel => "fuel"

def runRd {α : Type} (r : Rd α) (payload : String) : Except String α :=
  match r.run (tokens payload) with
  | .ok (a, _) => .ok a
  | .error e => .error e

def bit (b : Bool) : String := if b then "1" else "0"

def listStr (xs : List String) : String := if xs.isEmpty then "[ ]" else s!"[ {" ".intercalate xs} ]"

def catName : Category → String
  | .atom => "atom" | .compound => "compound" | .statement => "statement"
def capName : Capacity → String
  | .atom => "atom" | .unary => "unary" | .binaryVec => "binaryVec" | .binarySet => "binarySet"
  | .vec => "vec" | .set => "set"

def apiOut (t : Term) : String :=
  let cap := t.capacity
  let preds := s!"{bit t.isAtom}{bit t.isCompound}{bit t.isStatement} " ++
    s!"{bit (cap == .atom)}{bit (cap == .unary)}{bit (cap == .binaryVec || cap == .binarySet)}" ++
    s!"{bit (cap == .binaryVec)}{bit (cap == .binarySet)}{bit (cap == .vec || cap == .set)}" ++
    s!"{bit (cap == .vec)}{bit (cap == .set)}"
  let sh (xs : List Term) := listStr (xs.map (showTerm .raw))
  let cc := match t.compoundComponents with
    | some v => s!"some {sh v}"
    | none => "none"
  let name := match t.atomName with
    | some n => s!"some {hs n}"
    | none => "none"
  let ext := match t.extract with
    | .ok v => s!"ok {sh v}"
    | .panic => "panic"
    | .err => "err"
    | .fuel => "fuel"
  s!"cat={catName t.category} cap={capName cap} preds={preds} comps={sh t.components} " ++
  s!"compsph={sh t.componentsWithPlaceholder} cc={cc} name={name} extract={ext}"

def lapiOut (t : LTerm) : String :=
  s!"cat={catName t.category} cap={capName t.capacity} extract={listStr (t.extract.map showLTerm)}"

def showGT (t : Res (GTruth Num)) : String := showRes (fun g => showTruth .canon (Truth.ofG g)) t
def showGB (t : Res (GBudget Num)) : String := showRes (fun g => showBudget .canon (Budget.ofG g)) t
def showNumRes (r : Res Num) : String := showRes (fun x => hexOf x.bits) r

def tctorOut (xs : List Num) : String :=
  let v := Num.in01
  let tf := showGT (GTruth.tryFromFloats v xs)
  let s1 := match xs with
    | f :: _ => showGT (GTruth.newSingle v f)
    | _ => "na"
  let s2 := match xs with
    | f :: c :: _ => showGT (GTruth.newDouble v f c)
    | _ => "na"
  let direct : GTruth Num := match xs with
    | [] => .empty
    | [f] => .single f
    | f :: c :: _ => .double f c
  s!"try={tf} ; single={s1} ; double={s2} ; f={showNumRes direct.f} ; c={showNumRes direct.c}"

def bctorOut (xs : List Num) : String :=
  let v := Num.in01
  let tf := showGB (GBudget.tryFromFloats v xs)
  let s1 := match xs with
    | p :: _ => showGB (GBudget.newSingle v p)
    | _ => "na"
  let s2 := match xs with
    | p :: d :: _ => showGB (GBudget.newDouble v p d)
    | _ => "na"
  let s3 := match xs with
    | p :: d :: q :: _ => showGB (GBudget.newTriple v p d q)
    | _ => "na"
  let direct : GBudget Num := match xs with
    | [] => .empty
    | [p] => .single p
    | [p, d] => .double p d
    | p :: d :: q :: _ => .triple p d q
  s!"try={tf} ; single={s1} ; double={s2} ; triple={s3} ; p={showNumRes direct.p} ; d={showNumRes direct.d} ; q={showNumRes direct.q}"

def evnOut (x : Num) : String :=
  let v := x.in01
  let tv := (tryValidate Num.in01 x).isOk
  let vv := match validate Num.in01 x with
    | .ok _ => "ok"
    | _ => "panic"
  s!"valid={bit v} try={bit tv} validate={vv}"

def castOut (n : Narsese) : String :=
  let flags := s!"{bit n.isTerm}{bit n.isSentence}{bit n.isTask}"
  let it := showRes (showTerm .canon) n.tryIntoTerm
  let is_ := showRes (showSentence .canon) n.tryIntoSentence
  let ik := showRes (showTask .canon) n.tryIntoTask
  let tc := showRes (showTask .canon) (n.tryIntoTaskCompatible Sentence.castToTask)
  let cs := match n.tryCastToSentence Task.tryCastToSentence with
    | .inl v => s!"ok {showNarsese .canon v}"
    | .inr v => s!"err {showNarsese .canon v}"
  s!"kind={n.kind} flags={flags} term={it} ; sentence={is_} ; task={ik} ; compat={tc} ; cast={cs}"

def lcastOut (n : LNarsese) : String :=
  let it := showRes showLTerm n.tryIntoTerm
  let is_ := showRes showLSentence n.tryIntoSentence
  let ik := showRes showLTask n.tryIntoTask
  let tc := showRes showLTask (n.tryIntoTaskCompatible LSentence.castToTask)
  let cs := match n.tryCastToSentence LTask.tryCastToSentence with
    | .inl v => s!"ok {showLNarsese v}"
    | .inr v => s!"err {showLNarsese v}"
  s!"kind={n.kind} term={it} ; sentence={is_} ; task={ik} ; compat={tc} ; cast={cs}"

def typstOut (n : Narsese) : String :=
  let C := Gen.typstC
  let s := match n with
    | .term t => C.typstTerm t
    | .sentence s => C.typstSentence s
    | .task k => C.typstTask k
  s!"s {hs s}"

/-- the stand-alone Typst renderings of the parts of a value (term, punctuation, stamp, truth, budget) -/
def typstPartsOut (n : Narsese) : String :=
  let C := Gen.typstC
  let sentParts (s : Sentence) : List Str :=
    [C.typstTerm s.term, C.typstPunct s.punct, C.typstStamp s.stamp, C.typstTruth s.truthOrEmpty]
  let parts : List Str := match n with
    | .term t => [C.typstTerm t]
    | .sentence s => sentParts s
    | .task k => sentParts k.sentence ++ [C.typstBudget k.budget]
  "s " ++ " ".intercalate (parts.map hs)

partial def rdManyStr (acc : List Str) : Rd (List Str) := do
  if (← atEnd) then pure acc.reverse else
    let s ← rdStr
    rdManyStr (s :: acc)

partial def rdManyTerm (acc : List Term) : Rd (List Term) := do
  if (← atEnd) then pure acc.reverse else
    let s ← rdTerm
    rdManyTerm (s :: acc)

partial def rdManyNum (acc : List Num) : Rd (List Num) := do
  if (← atEnd) then pure acc.reverse else
    let s ← rdNum
    rdManyNum (s :: acc)

/-- what a `Hasher` sees of a feed: the bytes. `write_usize` / `write_u64` write eight little-endian bytes,
`str::hash` the UTF-8 bytes followed by 0xff — so `usize 0` and `u64 0`, or differently grouped writes with the
same bytes, are ONE input to the hasher (e.g. an empty image followed by an empty set, and the other way round) -/
def le8 (n : Nat) : List Nat := (List.range 8).map (fun i => (n / 256 ^ i) % 256)

def tokBytes : Tok → List Nat
  | .str s => (String.ofList s).toUTF8.toList.map (·.toNat) ++ [255]
  | .usize n => le8 n
  | .u64 n => le8 n

def feedBytes (toks : List Tok) : List Nat := toks.flatMap tokBytes

/-- a stand-in for the fixed-key `DefaultHasher` on an element's own feed (the theorems quantify over
every such function; the driver needs one that depends on the bytes only and separates different byte strings) -/
def driverH0 (toks : List Tok) : Nat :=
  (feedBytes toks).foldl (fun acc b => (acc * 6364136223846793005 + b + 1442695040888963407) % 2 ^ 64) 14695981039346656037

/-- every number handed to a printer must be what Rust prints for it -/
def numsOf : Narsese → List Num
  | .term _ => []
  | .sentence s => s.truthOrEmpty.components
  | .task k => k.budget.components ++ k.sentence.truthOrEmpty.components

def exec (op fmt payload : String) : Except String String := do
  match op with
  | "efmt" =>
    let F ← efmtOf fmt
    let v ← runRd rdNarsese payload
    pure s!"s {hs (F.fmtNarsese v)}"
  | "eparse" | "echars" =>
    let F ← efmtOf fmt
    let s ← runRd rdStr payload
    pure (showRes (showNarsese .canon) (F.eparse s))
  | "emacro" =>
    let F ← efmtOf fmt
    let s ← runRd rdStr payload
    let C := Gen.typstC
    pure (showRes (showNarsese .canon) (F.eparse (s.filter (fun c => !C.isWs c))))
  | "emulti" =>
    let F ← efmtOf fmt
    let inputs ← runRd (rdManyStr []) payload
    pure (" | ".intercalate ((F.parseMulti inputs).map (showRes (showNarsese .canon))))
  | "etruth" =>
    let F ← efmtOf fmt
    let s ← runRd rdStr payload
    pure (showRes (showTruth .canon) (F.parseTruthDoor s))
  | "emid" =>
    let F ← efmtOf fmt
    let s ← runRd rdStr payload
    let o : Option String → String := fun x => x.getD "-"
    pure (showRes (fun (m : Mid) =>
      s!"{o (m.budget.map (showBudget .canon))} {o (m.term.map (showTerm .canon))} {o (m.punct.map showPunct)} {o (m.stamp.map showStamp)} {o (m.truth.map (showTruth .canon))} hs={bit m.hasSentence} ht={bit m.hasTask} ts={bit m.hasSentence} tt={bit m.hasTask}")
      (F.parseMidDoor s))
  | "ebudget" =>
    let F ← efmtOf fmt
    let s ← runRd rdStr payload
    pure (showRes (showBudget .canon) (F.parseBudgetDoor s))
  | "estamp" =>
    let F ← efmtOf fmt
    let s ← runRd rdStr payload
    pure (showRes showStamp (F.parseStampDoor s))
  | "epunct" =>
    let F ← efmtOf fmt
    let s ← runRd rdStr payload
    pure (showRes showPunct (F.parsePunctDoor s))
  | "lfmt" =>
    let L ← lfmtOf fmt
    let v ← runRd rdLNarsese payload
    pure s!"s {hs (L.fmtNarsese v)}"
  | "lparse" =>
    let L ← lfmtOf fmt
    let s ← runRd rdStr payload
    pure (showRes showLNarsese (L.lparse s))
  | "lparseterm" =>
    let L ← lfmtOf fmt
    let s ← runRd rdStr payload
    pure (showRes showLTerm (L.lparseTerm s))
  | "lfold" =>
    let F ← efmtOf fmt
    let L ← lfmtOf fmt
    let s ← runRd rdStr payload
    pure (showRes (showNarsese .canon) ((L.lparse s).bind F.foldNarsese))
  | "fold" =>
    let F ← efmtOf fmt
    let v ← runRd rdLNarsese payload
    pure (showRes (showNarsese .canon) (F.foldNarsese v))
  | "eq" =>
    let (a, b) ← runRd (do let a ← rdTerm; let b ← rdTerm; pure (a, b)) payload
    pure s!"b {bit (sem a b)}"
  | "hasheq" =>
    let (a, b) ← runRd (do let a ← rdTerm; let b ← rdTerm; pure (a, b)) payload
    pure s!"b {bit (decide (feedBytes (feed driverH0 a) = feedBytes (feed driverH0 b)))}"
  | "typst" =>
    let v ← runRd rdNarsese payload
    pure (typstOut v)
  | "typstparts" =>
    let v ← runRd rdNarsese payload
    pure (typstPartsOut v)
  | "api" =>
    let t ← runRd rdTerm payload
    pure (apiOut t)
  | "lapi" =>
    let t ← runRd rdLTerm payload
    pure (lapiOut t)
  | "setname" =>
    let (t, n) ← runRd (do let t ← rdTerm; let n ← rdStr; pure (t, n)) payload
    let (r, t') := t.setAtomName n
    let name := match t'.atomName with
      | some n => s!"some {hs n}"
      | none => "none"
    pure s!"{if r.isOk then "ok" else "err"} {showTerm .canon t'} name={name}"
  | "push" =>
    let ts ← runRd (rdManyTerm []) payload
    match ts with
    | [] => throw "push: no term"
    | t :: cs =>
      let (r, t') := t.pushComponents cs
      pure s!"{if r.isOk then "ok" else "err"} {showTerm .canon t'}"
  | "tctor" =>
    let xs ← runRd (rdManyNum []) payload
    pure (tctorOut xs)
  | "bctor" =>
    let xs ← runRd (rdManyNum []) payload
    pure (bctorOut xs)
  | "evn" =>
    let x ← runRd rdNum payload
    pure (evnOut x)
  | "cast" =>
    let v ← runRd rdNarsese payload
    pure (castOut v)
  | "lcast" =>
    let v ← runRd rdLNarsese payload
    pure (lcastOut v)
  | "peg" =>
    -- the published README grammar as reference: kind and tree it derives for the text
    let s ← runRd rdStr payload
    pure (match Peg.referenceS Gen.readmeGrammar s with
      | some v => s!"ok {showLNarsese v}"
      | none => "err")
  | "pegen" =>
    -- the grammar block of README.en.md (the same grammar, published in English) as reference
    let s ← runRd rdStr payload
    pure (match Peg.referenceS Gen.readmeGrammarEn s with
      | some v => s!"ok {showLNarsese v}"
      | none => "err")
  | "c01hyp" =>
    -- model-only: do the hypotheses of the C01 round-trip theorem (`Props/C01c.lean`) hold for this value?
    let F ← efmtOf fmt
    let v ← runRd rdNarsese payload
    pure s!"h {bit (wfN F v)} {bit (topN F v)} ok {showNarsese .canon v}"
  | "c02hyp" =>
    -- model-only: do the hypotheses of the C02 round-trip theorem (`Props/C02b.lean`) hold for this value?
    let L ← lfmtOf fmt
    let v ← runRd rdLNarsese payload
    pure s!"h {bit (wfLNB L v)} {bit (wsFreeN L v)} ok {showLNarsese v}"
  | "c11hyp" =>
    -- model-only: the hypotheses of `ascii_conforms_wf` (`Props/C11c.lean`) for a lexical value
    let L ← lfmtOf fmt
    let v ← runRd rdLNarsese payload
    pure s!"h {bit (wfLNB L v && wsFreeN L v)} {bit (Peg.gExtraB L v)} ok {showLNarsese v}"
  | "c11hypE" =>
    -- model-only: the hypothesis of `ascii_conforms_enum` for an enum value; the value the theorem predicts
    let F ← efmtOf fmt
    let L ← lfmtOf fmt
    let v ← runRd rdNarsese payload
    let x := toLexN F v
    pure s!"h {bit (Peg.gValOKB L x)} 1 ok {showLNarsese x}"
  | "c03hyp" =>
    -- model-only: do the hypotheses of `pipelines_agree_on_formatted` (`Props/C03b.lean`) hold for this value?
    let F ← efmtOf fmt
    let L ← lfmtOf fmt
    let v ← runRd rdNarsese payload
    let x := toLexN F v
    pure s!"h {bit (wfN F v && topN F v)} {bit (wfLNB L x && wsFreeN L x)} ok {showNarsese .canon v}"
  | "spellA" | "spellB" | "spellC" | "spellD" =>
    -- model-only: an instance of the master theorem (`Props/C09b.lean`): a spelling of the value
    -- (A: no spaces; B: pseudo-random spaces; C: spaces + derived copulas; D: derived copulas, no spaces),
    -- whether all decidable hypotheses hold for it, its text, and the value it must parse to
    let F ← efmtOf fmt
    let L ← lfmtOf fmt
    let v ← runRd rdNarsese payload
    let k := payload.length
    let σ : Nat → Nat := match op with
      | "spellA" | "spellD" => fun _ => 0
      | _ => fun i => (i * 7 + k + i / 5) % 3
    let sugar := op == "spellC" || op == "spellD"
    let sv := spell F σ sugar v
    pure s!"h {bit (spellOK F L sv v)} {hs (svalTxt F sv)} ok {showNarsese .canon v}"
  | "c16hyp" =>
    -- model-only: is the value well-formed for the Typst injectivity theorem (`Props/C16b.lean`)?
    let v ← runRd rdNarsese payload
    pure s!"h {bit (wfTyN Gen.typstC v)} 1 s {hs (typstN Gen.typstC v)}"
  | "numok" =>
    -- is this (bits, text) pair what the model requires of a printed number?
    let x ← runRd rdNum payload
    pure s!"b {bit x.ok}"
  | _ => throw s!"unknown op {op}"

partial def loop (h : IO.FS.Stream) (out : IO.FS.Stream) : IO Unit := do
  let line ← h.getLine
  if line.isEmpty then return ()
  let line := String.ofList (line.toList.reverse.dropWhile (fun c => c == '\n' || c == '\r')).reverse
  if line.isEmpty || line.startsWith "#" || line.startsWith "!" then
    loop h out
  else
    let cols := line.splitOn "\t"
    match cols with
    | op :: fmt :: payload :: _ =>
      match exec op fmt payload with
      | .ok s => out.putStrLn s
      | .error e => out.putStrLn s!"bad-op {e}"
    | _ => out.putStrLn "bad-line"
    -- one answer per request, visible at once (the differential fuzzer talks to the driver interactively)
    out.flush
    loop h out

end Narsese.Driver

def main : IO Unit := do
  let stdin ← IO.getStdin
  let stdout ← IO.getStdout
  Narsese.Driver.loop stdin stdout
