/-
  Enum Narsese format record (model of `impl_enum/format.rs` `NarseseFormat<&str>`).
  The three shipped instances are GENERATED from the compiled crate into `Gen/Formats.lean`.
-/
import NarseseModel.Term
set_option autoImplicit false

namespace Narsese

structure EFormat where
  /-- `is_valid_atom_name`, evaluated on all scalar values, as inclusive ranges -/
  isNameTbl : List (Nat × Nat)
  spaceParse : Str
  spaceTerms : Str
  spaceItems : Str
  -- atom prefixes
  preWord : Str
  prePlaceholder : Str
  preIVar : Str
  preDVar : Str
  preQVar : Str
  preInterval : Str
  preOperator : Str
  -- compound
  compL : Str
  compR : Str
  separator : Str
  extSetL : Str
  extSetR : Str
  intSetL : Str
  intSetR : Str
  cExtInt : Str
  cIntInt : Str
  cExtDiff : Str
  cIntDiff : Str
  cProduct : Str
  cExtImg : Str
  cIntImg : Str
  cConj : Str
  cDisj : Str
  cNeg : Str
  cSeqConj : Str
  cParConj : Str
  -- statement
  stmtL : Str
  stmtR : Str
  copInh : Str
  copSim : Str
  copImpl : Str
  copEquiv : Str
  copInstance : Str
  copProperty : Str
  copInstProp : Str
  copImplPred : Str
  copImplConc : Str
  copImplRetro : Str
  copEquivPred : Str
  copEquivConc : Str
  copEquivRetro : Str
  -- sentence
  pJudgement : Str
  pGoal : Str
  pQuestion : Str
  pQuest : Str
  stampL : Str
  stampR : Str
  stampPast : Str
  stampPresent : Str
  stampFuture : Str
  stampFixed : Str
  truthL : Str
  truthR : Str
  truthSep : Str
  -- task
  budgetL : Str
  budgetR : Str
  budgetSep : Str
  deriving Repr, Inhabited

namespace EFormat

def isName (F : EFormat) (c : Char) : Bool := inRanges F.isNameTbl c

/-- `NarseseFormat::copulas()` in source order -/
def copulas (F : EFormat) : List Str :=
  [F.copInh, F.copSim, F.copImpl, F.copEquiv, F.copInstance, F.copProperty, F.copInstProp,
   F.copImplPred, F.copImplConc, F.copImplRetro, F.copEquivPred, F.copEquivConc, F.copEquivRetro]

def atomPrefix (F : EFormat) : AtomK → Str
  | .word => F.preWord | .ivar => F.preIVar | .dvar => F.preDVar | .qvar => F.preQVar | .op => F.preOperator

def setBrackets (F : EFormat) : SetK → Option (Str × Str)
  | .extSet => some (F.extSetL, F.extSetR)
  | .intSet => some (F.intSetL, F.intSetR)
  | _ => none

def setConnecter (F : EFormat) : SetK → Str
  | .extSet | .intSet => []   -- not used (bracket form)
  | .extInt => F.cExtInt | .intInt => F.cIntInt | .conj => F.cConj | .disj => F.cDisj
  | .parConj => F.cParConj

def seqConnecter (F : EFormat) : SeqK → Str
  | .product => F.cProduct | .seqConj => F.cSeqConj

def imgConnecter (F : EFormat) : ImgK → Str
  | .ext => F.cExtImg | .int => F.cIntImg

/-- connecter of the two differences / copula of a statement kind -/
def binKeyword (F : EFormat) : BinK → Str
  | .extDiff => F.cExtDiff | .intDiff => F.cIntDiff
  | .inh => F.copInh | .sim => F.copSim | .impl => F.copImpl | .equiv => F.copEquiv
  | .implPred => F.copImplPred | .implConc => F.copImplConc | .implRetro => F.copImplRetro
  | .equivPred => F.copEquivPred | .equivConc => F.copEquivConc

end EFormat

end Narsese
