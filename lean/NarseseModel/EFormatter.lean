/-
  Enum Narsese formatter (model of `impl_enum/formatter.rs` + `common/common_narsese_templates.rs`).
-/
import NarseseModel.EFormat
import NarseseModel.Value
set_option autoImplicit false

namespace Narsese

/-- `ImageIterator` over the raw components: the placeholder is yielded when the running index reaches
the stored one; the iteration ends with the raw components. -/
def imageIter (idx : Nat) : Nat → List Term → List Term
  | now, [] => if now = idx then [.placeholder] else []
  | now, t :: ts =>
    if now = idx then .placeholder :: t :: imageIter idx (now + 2) ts
    else t :: imageIter idx (now + 1) ts

namespace EFormat

/-- `template_components`: joined by `separator ++ space` -/
def joinComponents (F : EFormat) (cs : List Str) : Str := joinWith (F.separator ++ F.spaceTerms) cs

/-- `template_compound` -/
def tplCompound (F : EFormat) (connecter : Str) (cs : List Str) : Str :=
  F.compL ++ connecter ++ F.separator ++ F.spaceTerms ++ F.joinComponents cs ++ F.compR

/-- `template_compound_set` -/
def tplSet (F : EFormat) (l r : Str) (cs : List Str) : Str := l ++ F.joinComponents cs ++ r

/-- `template_statement` -/
def tplStatement (F : EFormat) (s cop p : Str) : Str :=
  F.stmtL ++ s ++ F.spaceTerms ++ cop ++ F.spaceTerms ++ p ++ F.stmtR

mutual
  def fmtTerm (F : EFormat) : Term → Str
    | .atom k n => F.atomPrefix k ++ n
    | .placeholder => F.prePlaceholder
    | .interval n => F.preInterval ++ showNat n
    | .setlike k ts =>
      match F.setBrackets k with
      | some (l, r) => F.tplSet l r (fmtTerms F ts)
      | none => F.tplCompound (F.setConnecter k) (fmtTerms F ts)
    | .seqlike k ts => F.tplCompound (F.seqConnecter k) (fmtTerms F ts)
    | .image k i ts => F.tplCompound (F.imgConnecter k) (fmtImage F i 0 ts)
    | .neg t => F.tplCompound F.cNeg [fmtTerm F t]
    | .bin k a b =>
      if k.isStatement then F.tplStatement (fmtTerm F a) (F.binKeyword k) (fmtTerm F b)
      else F.tplCompound (F.binKeyword k) [fmtTerm F a, fmtTerm F b]
  def fmtTerms (F : EFormat) : Terms → List Str
    | .nil => []
    | .cons t ts => fmtTerm F t :: fmtTerms F ts
  /-- components of an image through `ImageIterator` -/
  def fmtImage (F : EFormat) (idx : Nat) : Nat → Terms → List Str
    | now, .nil => if now = idx then [F.prePlaceholder] else []
    | now, .cons t ts =>
      if now = idx then F.prePlaceholder :: fmtTerm F t :: fmtImage F idx (now + 2) ts
      else fmtTerm F t :: fmtImage F idx (now + 1) ts
end

/-- `format_floats` -/
def fmtFloats (l r sep : Str) (xs : List Num) : Str := l ++ joinWith sep (xs.map (·.text)) ++ r

def fmtTruth (F : EFormat) : Truth → Str
  | .empty => []
  | t => fmtFloats F.truthL F.truthR F.truthSep t.components

def fmtBudget (F : EFormat) (b : Budget) : Str := fmtFloats F.budgetL F.budgetR F.budgetSep b.components

def fmtStamp (F : EFormat) : Stamp → Str
  | .eternal => []
  | .past => F.stampL ++ F.stampPast ++ F.stampR
  | .present => F.stampL ++ F.stampPresent ++ F.stampR
  | .future => F.stampL ++ F.stampFuture ++ F.stampR
  | .fixed t => F.stampL ++ F.stampFixed ++ showInt t ++ F.stampR

def fmtPunct (F : EFormat) : Punct → Str
  | .judgement => F.pJudgement | .goal => F.pGoal | .question => F.pQuestion | .quest => F.pQuest

/-- `join_lest_multiple_separators` applied to `[punctuation, stamp, truth]`:
the first element is pushed unconditionally, later ones only if non-empty, each preceded by `sep`. -/
def joinLest (sep : Str) : List Str → Str
  | [] => []
  | x :: xs => x ++ (xs.filter (fun s => !s.isEmpty)).foldr (fun s acc => sep ++ s ++ acc) []

/-- `_format_sentence` (note: joined with `space.format_terms`) -/
def fmtSentence (F : EFormat) (s : Sentence) : Str :=
  F.fmtTerm s.term ++ joinLest F.spaceTerms [F.fmtPunct s.punct, F.fmtStamp s.stamp, F.fmtTruth s.truthOrEmpty]

/-- `_format_task`: budget, then `format_items` + sentence if the sentence text is non-empty -/
def fmtTask (F : EFormat) (k : Task) : Str :=
  let b := F.fmtBudget k.budget
  let s := F.fmtSentence k.sentence
  if s.isEmpty then b else b ++ F.spaceItems ++ s

def fmtNarsese (F : EFormat) : Narsese → Str
  | .term t => F.fmtTerm t
  | .sentence s => F.fmtSentence s
  | .task k => F.fmtTask k

end EFormat
end Narsese
