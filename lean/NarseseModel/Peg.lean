/-
  A small interpreter for pest-style PEG grammars (ordered choice, greedy repetition, negative
  look-ahead, implicit WHITESPACE skipping in non-atomic rules, atomic `@` and silent `_` rules),
  and the reading of the README grammar's parse tree as a lexical Narsese value.
  The grammar itself is GENERATED from README.md (`Gen/ReadmeGrammar.lean`).
-/
import NarseseModel.Lex
set_option autoImplicit false

namespace Narsese.Peg

inductive Peg where
  | lit (s : Str)
  | ref (name : String)
  | cls (name : String)
  | seq (a b : Peg)
  | alt (a b : Peg)
  | star (p : Peg)
  | plus (p : Peg)
  | opt (p : Peg)
  | neg (p : Peg)
  deriving Repr, Inhabited, DecidableEq

inductive Modifier where
  | normal | atomic | silent | compound
  deriving Repr, DecidableEq, Inhabited

structure Rule where
  name : String
  mod : Modifier
  body : Peg
  deriving Repr, Inhabited, DecidableEq

structure Grammar where
  rules : List Rule
  classes : List (String × List (Nat × Nat))
  deriving Inhabited

/-- parse tree: one node per non-silent rule that matched outside atomic context -/
inductive PTree where
  | node (rule : String) (text : Str) (kids : List PTree)
  deriving Repr, Inhabited

def Grammar.rule? (G : Grammar) (n : String) : Option Rule := G.rules.find? (fun r => r.name == n)
def Grammar.cls? (G : Grammar) (n : String) : Option (List (Nat × Nat)) := (G.classes.find? (fun c => c.1 == n)).map (·.2)

mutual
  /-- `run G fuel atomic p s` = `some (rest, nodes)` when `p` matches a prefix of `s` -/
  def run (G : Grammar) : Nat → Bool → Peg → Str → Option (Str × List PTree)
    | 0, _, _, _ => none
    | fuel + 1, atomic, p, s =>
      match p with
      | .lit k => (strip k s).map (fun r => (r, []))
      | .cls n =>
        match G.cls? n, s with
        | some tbl, c :: cs => if inRanges tbl c then some (cs, []) else none
        | _, _ => none
      | .ref n =>
        match G.rule? n with
        | none => none
        | some r =>
          let atomic' := atomic || r.mod == .atomic
          match run G fuel atomic' r.body s with
          | none => none
          | some (rest, kids) =>
            let text := s.take (s.length - rest.length)
            if r.mod == .silent then some (rest, kids)
            else if atomic then some (rest, [])          -- called from an atomic rule: no token
            else if r.mod == .atomic then some (rest, [.node n text []])
            else some (rest, [.node n text kids])
      | .seq a b =>
        match run G fuel atomic a s with
        | none => none
        | some (r1, k1) =>
          let r1' := if atomic then r1 else skipWs G fuel r1
          match run G fuel atomic b r1' with
          | none => none
          | some (r2, k2) => some (r2, k1 ++ k2)
      | .alt a b =>
        match run G fuel atomic a s with
        | some r => some r
        | none => run G fuel atomic b s
      | .opt a =>
        match run G fuel atomic a s with
        | some r => some r
        | none => some (s, [])
      | .neg a =>
        match run G fuel atomic a s with
        | some _ => none
        | none => some (s, [])
      | .star a => some (many G fuel atomic a s [])
      | .plus a =>
        match run G fuel atomic a s with
        | none => none
        | some (r1, k1) => some (many G fuel atomic a r1 k1)
  /-- zero or more further repetitions (with implicit whitespace between them outside atomic context);
  stops when a repetition fails or consumes nothing -/
  def many (G : Grammar) : Nat → Bool → Peg → Str → List PTree → Str × List PTree
    | 0, _, _, s, acc => (s, acc)
    | fuel + 1, atomic, a, s, acc =>
      let s' := if atomic then s else skipWs G fuel s
      match run G fuel atomic a s' with
      | none => (s, acc)
      | some (r, k) => if r.length < s.length then many G fuel atomic a r (acc ++ k) else (s, acc)
  /-- the implicit `WHITESPACE*` -/
  def skipWs (G : Grammar) : Nat → Str → Str
    | 0, s => s
    | fuel + 1, s =>
      match G.rule? "WHITESPACE" with
      | none => s
      | some r =>
        match run G fuel true r.body s with
        | some (rest, _) => if rest.length < s.length then skipWs G fuel rest else s
        | none => s
end

/-- match the whole input with the start rule -/
def parseAll (G : Grammar) (start : String) (s : Str) : Option PTree :=
  match run G (40 * s.length + 400) false (.ref start) s with
  | some ([], [t]) => some t
  | _ => none

/-! ### reading the README grammar's tree as a lexical value (rule names of README.md) -/

def PTree.rule : PTree → String | .node r _ _ => r
def PTree.text : PTree → Str | .node _ t _ => t
def PTree.kids : PTree → List PTree | .node _ _ k => k

mutual
  def toTerm : Nat → PTree → Option LTerm
    | 0, _ => none
    | fuel + 1, t =>
      match t.rule, t.kids with
      | "term", [k] => toTerm fuel k
      | "atom", [] =>
        -- `"_"+`: the placeholder; the lexical model stores prefix "_" and whatever follows as the name
        match t.text with
        | '_' :: rest => some (.atom ['_'] rest)
        | _ => none
      | "atom", [c] => if c.rule == "atom_content" then some (.atom [] c.text) else none
      | "atom", [p, c] =>
        if p.rule == "atom_prefix" && c.rule == "atom_content" then some (.atom p.text c.text) else none
      | "statement", [s, cop, p] =>
        match toTerm fuel s, toTerm fuel p with
        | some s', some p' => if cop.rule == "copula" then some (.stmt cop.text s' p') else none
        | _, _ => none
      | "compound", kids =>
        match t.text, kids with
        | '(' :: _, conn :: rest =>
          if conn.rule == "connecter" then (toTerms fuel rest).map (fun ts => .compound conn.text (LTerms.ofList ts))
          else none
        | '{' :: _, ks => (toTerms fuel ks).map (fun ts => .set ['{'] (LTerms.ofList ts) ['}'])
        | '[' :: _, ks => (toTerms fuel ks).map (fun ts => .set ['['] (LTerms.ofList ts) [']'])
        | _, _ => none
      | _, _ => none
  def toTerms : Nat → List PTree → Option (List LTerm)
    | 0, _ => none
    | _ + 1, [] => some []
    | fuel + 1, k :: ks =>
      match toTerm fuel k, toTerms fuel ks with
      | some t, some ts => some (t :: ts)
      | _, _ => none
end

/- the reading recursion is bounded by the length of the text the tree spans: every level of nesting spans at
   least one more character (`need_le`, Proofs/Peg/Read.lean) -/
def leafTexts (rule : String) (ts : List PTree) : List Str := (ts.filter (fun t => t.rule == rule)).map (·.text)

def toSentence (t : PTree) : Option LSentence :=
  match t.rule, t.kids with
  | "sentence", term :: punct :: rest =>
    if punct.rule != "punctuation" then none else
    match toTerm (2 * term.text.length + 4) term with
    | none => none
    | some tm =>
      let stamp := match rest.find? (fun k => k.rule == "stamp") with
        | some s => s.text
        | none => []
      let truth := match rest.find? (fun k => k.rule == "truth") with
        | some tr => leafTexts "truth_budget_term" tr.kids
        | none => []
      some { term := tm, punct := punct.text, stamp := stamp, truth := truth }
  | _, _ => none

/-- kind and tree the README grammar derives -/
def toNarsese (t : PTree) : Option LNarsese :=
  match t.rule, t.kids with
  | "narsese", [k] =>
    match k.rule, k.kids with
    | "task", [b, s] =>
      if b.rule != "budget" then none else
      let entries := match b.kids with
        | [bc] => leafTexts "truth_budget_term" bc.kids
        | _ => []
      (toSentence s).map (fun s' => .task { budget := entries, sentence := s' })
    | "sentence", _ => (toSentence k).map .sentence
    | "term", _ => (toTerm (2 * k.text.length + 4) k).map .term
    | _, _ => none
  | _, _ => none

/-- the reference: parse with the published grammar, read the tree -/
def reference (G : Grammar) (s : Str) : Option LNarsese := (parseAll G "narsese" s).bind toNarsese

end Narsese.Peg
