/-
  Basic text utilities and the outcome monad of the model.
  No imports outside core: the driver must link as a `lean_exe`.
-/
set_option autoImplicit false

namespace Narsese

/-- One text representation everywhere: the Rust parsers are `Vec<char>`-indexed. -/
abbrev Str := List Char

/-- Outcome of a modelled Rust operation.
  `ok`   : returned `Ok(v)` / a plain value
  `err`  : returned `Err(_)` (messages are not modelled)
  `panic`: a Rust panic (index out of range, `unwrap` on `None`, failed `validate_01`, ...)
  `fuel` : the model ran out of fuel (never a legitimate outcome; proved unreachable) -/
inductive Res (α : Type) where
  | ok (a : α)
  | err
  | panic
  | fuel
  deriving Repr, DecidableEq, Inhabited

namespace Res
variable {α β : Type}

@[inline] def bind (x : Res α) (f : α → Res β) : Res β :=
  match x with
  | .ok a => f a
  | .err => .err
  | .panic => .panic
  | .fuel => .fuel

@[inline] def map (f : α → β) (x : Res α) : Res β :=
  match x with
  | .ok a => .ok (f a)
  | .err => .err
  | .panic => .panic
  | .fuel => .fuel

instance : Monad Res where
  pure := .ok
  bind := Res.bind

def isOk : Res α → Bool
  | .ok _ => true
  | _ => false

def isErr : Res α → Bool
  | .err => true
  | _ => false

/-- `Ok`/`Err` are the only acceptable outcomes of a total Rust function. -/
def total : Res α → Bool
  | .ok _ => true
  | .err => true
  | _ => false

def ofOption (o : Option α) : Res α :=
  match o with
  | some a => .ok a
  | none => .err

def toOption : Res α → Option α
  | .ok a => some a
  | _ => none

end Res

/-- `strip k s = some r` iff `s = k ++ r` (keyword prefix removal). -/
def strip : Str → Str → Option Str
  | [], s => some s
  | _ :: _, [] => none
  | k :: ks, c :: cs => if k = c then strip ks cs else none

/-- `k` is a prefix of `s`. -/
def isPre (k s : Str) : Bool := (strip k s).isSome

/-- `k` is a suffix of `s`. -/
def isSuf (k s : Str) : Bool := isPre k.reverse s.reverse

/-- neither keyword is a prefix of the other -/
def incompat (a b : Str) : Bool := !(isPre a b) && !(isPre b a)

/-- one is a prefix of the other -/
def compat (a b : Str) : Bool := isPre a b || isPre b a

/-- character membership in a sorted table of inclusive code-point ranges (early exit). -/
def inRanges (tbl : List (Nat × Nat)) (c : Char) : Bool :=
  match tbl with
  | [] => false
  | (lo, hi) :: rest =>
    if c.toNat < lo then false
    else if c.toNat ≤ hi then true
    else inRanges rest c

/-- first index at which `p` holds -/
def findIdx {α : Type} (p : α → Bool) : List α → Option Nat
  | [] => none
  | x :: xs => if p x then some 0 else (findIdx p xs).map (· + 1)

/-- ordered first match over a keyword list: index of the first keyword that prefixes `s`, with the rest -/
def firstMatch : List Str → Str → Option (Nat × Str)
  | [], _ => none
  | k :: ks, s =>
    match strip k s with
    | some r => some (0, r)
    | none => (firstMatch ks s).map (fun p => (p.1 + 1, p.2))

def joinWith (sep : Str) : List Str → Str
  | [] => []
  | [x] => x
  | x :: xs => x ++ sep ++ joinWith sep xs

end Narsese
