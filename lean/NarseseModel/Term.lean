/-
  Enum Narsese terms (model of `src/enum_narsese/term/structs.rs`).

  The 30 Rust constructors map 1-1 onto (constructor, kind) pairs.
  A `HashSet<Term>` is modelled as the list of its elements in iteration order.
-/
import NarseseModel.Basic
set_option autoImplicit false

namespace Narsese

inductive AtomK where
  | word | ivar | dvar | qvar | op
  deriving DecidableEq, Repr, Inhabited

/-- HashSet-backed constructors -/
inductive SetK where
  | extSet | intSet | extInt | intInt | conj | disj | parConj
  deriving DecidableEq, Repr, Inhabited

/-- Vec-backed constructors without index -/
inductive SeqK where
  | product | seqConj
  deriving DecidableEq, Repr, Inhabited

inductive ImgK where
  | ext | int
  deriving DecidableEq, Repr, Inhabited

/-- two boxed operands -/
inductive BinK where
  | extDiff | intDiff | inh | sim | impl | equiv
  | implPred | implConc | implRetro | equivPred | equivConc
  deriving DecidableEq, Repr, Inhabited

mutual
  inductive Term where
    | atom (k : AtomK) (name : Str)
    | placeholder
    | interval (n : Nat)
    | setlike (k : SetK) (ts : Terms)
    | seqlike (k : SeqK) (ts : Terms)
    | image (k : ImgK) (idx : Nat) (ts : Terms)
    | neg (t : Term)
    | bin (k : BinK) (a b : Term)
  inductive Terms where
    | nil
    | cons (t : Term) (ts : Terms)
end

deriving instance DecidableEq for Term, Terms
deriving instance Repr for Term, Terms

instance : Inhabited Term := ⟨.placeholder⟩
instance : Inhabited Terms := ⟨.nil⟩

namespace Terms

def toList : Terms → List Term
  | .nil => []
  | .cons t ts => t :: toList ts

def ofList : List Term → Terms
  | [] => .nil
  | t :: ts => .cons t (ofList ts)

def length : Terms → Nat
  | .nil => 0
  | .cons _ ts => length ts + 1

def append : Terms → Terms → Terms
  | .nil, ys => ys
  | .cons t ts, ys => .cons t (append ts ys)

def isEmpty : Terms → Bool
  | .nil => true
  | .cons _ _ => false

def take : Nat → Terms → Terms
  | 0, _ => .nil
  | _ + 1, .nil => .nil
  | n + 1, .cons t ts => .cons t (take n ts)

def drop : Nat → Terms → Terms
  | 0, ts => ts
  | _ + 1, .nil => .nil
  | n + 1, .cons _ ts => drop n ts

def snoc (ts : Terms) (t : Term) : Terms := append ts (.cons t .nil)

theorem toList_ofList (l : List Term) : toList (ofList l) = l := by
  induction l with
  | nil => rfl
  | cons t ts ih => simp [ofList, toList, ih]

theorem ofList_toList : (ts : Terms) → ofList (toList ts) = ts
  | .nil => rfl
  | .cons t ts => by simp [toList, ofList, ofList_toList ts]

theorem length_toList : (ts : Terms) → (toList ts).length = length ts
  | .nil => rfl
  | .cons _ ts => by simp [toList, length, length_toList ts]

end Terms

/-- symmetric statement kinds (`Similarity`, `Equivalence`, `EquivalenceConcurrent`) -/
def BinK.symmetric : BinK → Bool
  | .sim | .equiv | .equivConc => true
  | _ => false

/-- the statement kinds (everything binary except the two differences) -/
def BinK.isStatement : BinK → Bool
  | .extDiff | .intDiff => false
  | _ => true

/-- Rust constructor names, used by the line protocol. -/
def AtomK.name : AtomK → String
  | .word => "Word" | .ivar => "VariableIndependent" | .dvar => "VariableDependent"
  | .qvar => "VariableQuery" | .op => "Operator"

def SetK.name : SetK → String
  | .extSet => "SetExtension" | .intSet => "SetIntension"
  | .extInt => "IntersectionExtension" | .intInt => "IntersectionIntension"
  | .conj => "Conjunction" | .disj => "Disjunction" | .parConj => "ConjunctionParallel"

def SeqK.name : SeqK → String
  | .product => "Product" | .seqConj => "ConjunctionSequential"

def ImgK.name : ImgK → String
  | .ext => "ImageExtension" | .int => "ImageIntension"

def BinK.name : BinK → String
  | .extDiff => "DifferenceExtension" | .intDiff => "DifferenceIntension"
  | .inh => "Inheritance" | .sim => "Similarity" | .impl => "Implication" | .equiv => "Equivalence"
  | .implPred => "ImplicationPredictive" | .implConc => "ImplicationConcurrent"
  | .implRetro => "ImplicationRetrospective" | .equivPred => "EquivalencePredictive"
  | .equivConc => "EquivalenceConcurrent"

def AtomK.all : List AtomK := [.word, .ivar, .dvar, .qvar, .op]
def SetK.all : List SetK := [.extSet, .intSet, .extInt, .intInt, .conj, .disj, .parConj]
def SeqK.all : List SeqK := [.product, .seqConj]
def ImgK.all : List ImgK := [.ext, .int]
def BinK.all : List BinK :=
  [.extDiff, .intDiff, .inh, .sim, .impl, .equiv, .implPred, .implConc, .implRetro, .equivPred, .equivConc]

end Narsese
