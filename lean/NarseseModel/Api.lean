/-
  Term API (model of the accessors / mutators in `src/enum_narsese/term/impls.rs`,
  `api/data_structure/term/*.rs`, `src/lexical/term.rs`).
-/
import NarseseModel.EFormatter
import NarseseModel.Lex
import NarseseModel.EParser
set_option autoImplicit false

namespace Narsese

inductive Category where
  | atom | compound | statement
  deriving DecidableEq, Repr, Inhabited

inductive Capacity where
  | atom | unary | binaryVec | binarySet | vec | set
  deriving DecidableEq, Repr, Inhabited

namespace Term

/-- `GetCategory for Term` -/
def category : Term → Category
  | .atom _ _ | .placeholder | .interval _ => .atom
  | .setlike _ _ | .seqlike _ _ | .image _ _ _ | .neg _ => .compound
  | .bin k _ _ => if k.isStatement then .statement else .compound

/-- `GetCapacity for Term` -/
def capacity : Term → Capacity
  | .atom _ _ | .placeholder | .interval _ => .atom
  | .neg _ => .unary
  | .bin k _ _ => if k.symmetric then .binarySet else .binaryVec
  | .seqlike _ _ | .image _ _ _ => .vec
  | .setlike _ _ => .set

def isAtom (t : Term) : Bool := t.category == .atom
def isCompound (t : Term) : Bool := t.category == .compound
def isStatement (t : Term) : Bool := t.category == .statement

/-- `get_components` (placeholder-free for images; atoms yield themselves) -/
def components : Term → List Term
  | .atom k n => [.atom k n]
  | .placeholder => [.placeholder]
  | .interval n => [.interval n]
  | .neg t => [t]
  | .bin _ a b => [a, b]
  | .seqlike _ ts | .image _ _ ts | .setlike _ ts => ts.toList

/-- `get_components_including_placeholder` -/
def componentsWithPlaceholder : Term → List Term
  | .image _ i ts => imageIter i 0 ts.toList
  | t => t.components

/-- `get_compound_components` -/
def compoundComponents (t : Term) : Option (List Term) :=
  if t.isCompound then some t.components else none

/-- `Vec::insert(i, x)`: panics when `i > len` -/
def vecInsert (xs : List Term) (i : Nat) (x : Term) : Res (List Term) :=
  if i ≤ xs.length then .ok (xs.take i ++ [x] ++ xs.drop i) else .panic

/-- `ExtractTerms::extract_terms_to_vec` -/
def extract : Term → Res (List Term)
  | .image _ i ts => vecInsert ts.toList i .placeholder
  | t => .ok t.components

/-- `get_atom_name_unchecked` -/
def atomNameUnchecked : Term → Res Str
  | .atom _ n => .ok n
  | .placeholder => .ok []
  | .interval n => .ok (showNat n)
  | _ => .panic

/-- `get_atom_name` -/
def atomName (t : Term) : Option Str :=
  if t.isAtom then t.atomNameUnchecked.toOption else none

/-- `set_atom_name`: the outcome and the term afterwards (unchanged on `Err`) -/
def setAtomName (t : Term) (n : Str) : Res Unit × Term :=
  match t with
  | .atom k _ => (.ok (), .atom k n)
  | .placeholder => (.ok (), .placeholder)
  | .interval i =>
    match parseUsize n with
    | some v => (.ok (), .interval v)
    | none => (.err, .interval i)
  | t => (.err, t)

/-- `push_components`: `Vec::extend` / `HashSet::extend`; fixed-capacity terms refuse -/
def pushComponents (t : Term) (cs : List Term) : Res Unit × Term :=
  match t with
  | .seqlike k ts => (.ok (), .seqlike k (Terms.ofList (ts.toList ++ cs)))
  | .image k i ts => (.ok (), .image k i (Terms.ofList (ts.toList ++ cs)))
  | .setlike k ts => (.ok (), .setlike k (Terms.ofList (dedupSem ts.toList cs)))
  | t => (.err, t)

end Term

namespace LTerm

def category : LTerm → Category
  | .atom _ _ => .atom
  | .compound _ _ | .set _ _ _ => .compound
  | .stmt _ _ _ => .statement

def capacity : LTerm → Capacity
  | .atom _ _ => .atom
  | .compound _ _ | .set _ _ _ => .vec
  | .stmt _ _ _ => .binaryVec

def extract : LTerm → List LTerm
  | .atom p n => [.atom p n]
  | .compound _ ts | .set _ ts _ => ts.toList
  | .stmt _ s p => [s, p]

end LTerm

end Narsese
