/-
  Numbers: `f64` as (bit pattern, decimal text), exact decimal→binary64 reading (model of
  `str::parse::<f64>`), `usize`/`isize` decimal syntax (model of `str::parse::<usize|isize>` and
  `to_string`), and the `[0,1]` test of `nar_dev_utils::ZeroOneFloat::is_in_01`.
-/
import NarseseModel.Basic
set_option autoImplicit false

namespace Narsese

/-! ## decimal digits -/

def isDigit (c : Char) : Bool := '0'.toNat ≤ c.toNat && c.toNat ≤ '9'.toNat

/-- (irreducible: unfolding `Nat.sub _ 48` during definitional unfolding is exponential for the elaborator) -/
@[irreducible] def digitVal (c : Char) : Nat := c.toNat - '0'.toNat

/-- value of a digit string (most significant first) -/
def digitsVal (acc : Nat) : Str → Nat
  | [] => acc
  | c :: cs => digitsVal (acc * 10 + digitVal c) cs

def allDigits (s : Str) : Bool := s.all isDigit

def digitChar (d : Nat) : Char := Char.ofNat ('0'.toNat + d)

/-- decimal digits of a natural, most significant first (fuel = number itself + 1 suffices) -/
def natDigitsAux : Nat → Nat → Str → Str
  | 0, _, acc => acc
  | fuel + 1, n, acc =>
    if n < 10 then digitChar n :: acc
    else natDigitsAux fuel (n / 10) (digitChar (n % 10) :: acc)

/-- `usize::to_string` -/
def showNat (n : Nat) : Str := natDigitsAux (n + 1) n []

/-- `isize::to_string` -/
def showInt (i : Int) : Str :=
  match i with
  | .ofNat n => showNat n
  | .negSucc n => '-' :: showNat (n + 1)

def usizeBits : Nat := 64

/-- `str::parse::<usize>`: optional `+`, at least one ASCII digit, value `< 2^64` -/
def parseUsize (s : Str) : Option Nat :=
  let ds := match s with
    | '+' :: r => r
    | _ => s
  if ds.isEmpty || !allDigits ds then none
  else
    let v := digitsVal 0 ds
    if v < 2 ^ usizeBits then some v else none

/-- `str::parse::<isize>`: optional `+`/`-`, at least one ASCII digit, value in `[-2^63, 2^63)` -/
def parseIsize (s : Str) : Option Int :=
  match s with
  | '-' :: ds =>
    if ds.isEmpty || !allDigits ds then none
    else
      let v := digitsVal 0 ds
      if v ≤ 2 ^ (usizeBits - 1) then some (- (Int.ofNat v)) else none
  | _ =>
    let ds := match s with
      | '+' :: r => r
      | _ => s
    if ds.isEmpty || !allDigits ds then none
    else
      let v := digitsVal 0 ds
      if v < 2 ^ (usizeBits - 1) then some (Int.ofNat v) else none

/-! ## binary64 -/

/-- A float as the model sees it: the IEEE-754 bit pattern and the decimal text it is printed as
(`f64::to_string`, supplied by the harness for constructed values; for parsed values, the text read). -/
structure Num where
  bits : Nat
  text : Str
  deriving DecidableEq, Repr, Inhabited

def bitsOne : Nat := 0x3FF0000000000000
def bitsNegZero : Nat := 0x8000000000000000
def bitsInf : Nat := 0x7FF0000000000000
def bitsNaN : Nat := 0x7FF8000000000000

/-- `(0.0..=1.0).contains(x)` on bit patterns: +0 .. 1.0 are exactly the patterns `≤ bits(1.0)`;
`-0.0` compares equal to `0.0`; everything else (negatives, >1, ±inf, NaN) is outside. -/
def in01Bits (b : Nat) : Bool := b ≤ bitsOne || b == bitsNegZero

def Num.in01 (x : Num) : Bool := in01Bits x.bits

/-- number of bits of `n` (position of the highest set bit + 1) -/
def bitLen : Nat → Nat → Nat
  | 0, _ => 0
  | fuel + 1, n => if n = 0 then 0 else bitLen fuel (n / 2) + 1

/-- Round the positive rational `num/den` to the nearest binary64 (ties to even); bit pattern. -/
def roundRat (num den : Nat) : Nat :=
  if num = 0 then 0 else
  -- estimate e with 2^e ≤ num/den < 2^(e+1)
  let ln := bitLen (num + 1) num
  let ld := bitLen (den + 1) den
  let e0 : Int := (ln : Int) - (ld : Int)
  -- e0 - 1 ≤ floor(log2 (num/den)) ≤ e0 ; fix it up
  let ge (e : Int) : Bool := -- num/den ≥ 2^e
    if e ≥ 0 then num ≥ den * 2 ^ e.toNat else num * 2 ^ (-e).toNat ≥ den
  let e : Int := if ge e0 then e0 else e0 - 1
  -- unbiased exponent of the result is `e` when normal (≥ -1022)
  let eN : Int := if e < -1022 then -1022 else e
  -- scaled significand m = num/den * 2^(52 - eN), want integer rounding
  let sh : Int := 52 - eN
  let (n2, d2) := if sh ≥ 0 then (num * 2 ^ sh.toNat, den) else (num, den * 2 ^ (-sh).toNat)
  let q := n2 / d2
  let r := n2 % d2
  let q' := if 2 * r > d2 then q + 1 else if 2 * r < d2 then q else (if q % 2 = 1 then q + 1 else q)
  -- q' in [0, 2^53]
  if q' < 2 ^ 52 then
    -- subnormal (or zero): exponent field 0
    q'
  else
    let (m, ex) := if q' = 2 ^ 53 then (2 ^ 52, eN + 1) else (q', eN)
    if ex > 1023 then bitsInf
    else ((ex + 1023).toNat) * 2 ^ 52 + (m - 2 ^ 52)

def lowerAscii (c : Char) : Char :=
  if 'A'.toNat ≤ c.toNat && c.toNat ≤ 'Z'.toNat then Char.ofNat (c.toNat + 32) else c

/-- split a leading run of ASCII digits -/
def spanDigits : Str → Str × Str
  | [] => ([], [])
  | c :: cs => if isDigit c then let p := spanDigits cs; (c :: p.1, p.2) else ([], c :: cs)

def stripLeadingZeros : Str → Str
  | '0' :: cs => stripLeadingZeros cs
  | s => s

/-- Model of `<f64 as FromStr>::from_str` (Rust `dec2flt` grammar, exact rounding); bit pattern. -/
def parseF64 (s : Str) : Option Nat :=
  let (neg, body) := match s with
    | '-' :: r => (true, r)
    | '+' :: r => (false, r)
    | _ => (false, s)
  let sign := if neg then bitsNegZero else 0
  let low := body.map lowerAscii
  if low = "inf".toList || low = "infinity".toList then some (sign + bitsInf)
  else if low = "nan".toList then some bitsNaN   -- sign of NaN: see `nanCanon` in the driver
  else
    let (ip, r1) := spanDigits body
    let (fp, r2) := match r1 with
      | '.' :: r => spanDigits r
      | _ => ([], r1)
    if ip.isEmpty && fp.isEmpty then none else
    -- exponent
    let expo : Option (Int × Str) := match r2 with
      | c :: r =>
        if c = 'e' || c = 'E' then
          let (eneg, r') := match r with
            | '-' :: t => (true, t)
            | '+' :: t => (false, t)
            | _ => (false, r)
          let (ed, r'') := spanDigits r'
          if ed.isEmpty then none
          else
            -- clamp huge exponents (value saturates long before)
            let edz := stripLeadingZeros ed
            let ev : Nat := if edz.length > 6 then 1000000 else digitsVal 0 edz
            some ((if eneg then - (Int.ofNat ev) else Int.ofNat ev), r'')
        else some (0, r2)
      | [] => some (0, [])
    match expo with
    | none => none
    | some (ev, rest) =>
      if !rest.isEmpty then none else
      let digs := stripLeadingZeros (ip ++ fp)
      if digs.isEmpty then some sign else
      let m := digitsVal 0 digs
      let e10 : Int := ev - (fp.length : Int)
      -- magnitude guard: value ≈ 0.d × 10^(len + e10)
      let mag : Int := (digs.length : Int) + e10
      if mag > 400 then some (sign + bitsInf)
      else if mag < -400 then some sign
      else
        let b := if e10 ≥ 0 then roundRat (m * 10 ^ e10.toNat) 1 else roundRat m (10 ^ (-e10).toNat)
        some (sign + b)

/-- `str::parse::<f64>` producing a model number whose text is the text read. -/
def readNum (s : Str) : Option Num := (parseF64 s).map (fun b => { bits := b, text := s })

/-- The decidable well-formedness of a number handed to a printer:
its text is what Rust prints for it, i.e. non-empty, only digits and `.`, reads back to the same bits,
and it lies in `[0,1]`. (That `f64::to_string` satisfies this for every `x ∈ [0,1]` is trusted; the
driver checks it for every number it is handed.) -/
def Num.ok (x : Num) : Bool :=
  x.in01 && !x.text.isEmpty && x.text.all (fun c => isDigit c || c == '.') && parseF64 x.text == some x.bits

end Narsese
