/-
  Grammar-side well-formedness: the decidable hypotheses of the C11 theorems (`Props/C11c.lean`), as plain
  executable definitions — kept apart from the proofs so that the driver can evaluate them on every generated
  value without importing any lemma that depends on the regenerated tables.
-/
import NarseseModel.PegSem
import NarseseModel.Gen.ReadmeGrammar
set_option autoImplicit false

namespace Narsese.Peg
open LFormat

/-- the grammar regenerated from README.md -/
abbrev RG : Grammar := Gen.readmeGrammar

def psB (c : Char) : Bool := inRanges Gen.clsPunct c || inRanges Gen.clsSymbol c
def lnB (c : Char) : Bool := inRanges Gen.clsLetter c || inRanges Gen.clsNumber c
def acB (c : Char) : Bool := lnB c || c == '_' || c == '-'
def wsB (c : Char) : Bool := inRanges Gen.clsWhite c
def ddB (c : Char) : Bool := inRanges [(48, 57)] c || c == '.'

/-- the README grammar's copula pattern at the head of a string -/
def gcopB : Str → Bool
  | a :: b :: c :: _ =>
    (psB a && '-' == b && psB c) || (psB a && '=' == b && psB c) || ('=' == a && psB b && '>' == c) ||
    ('<' == a && psB b && '>' == c)
  | _ => false

/-- a connecter of the format: punctuation / symbol characters, no comma -/
def gConnB (conn : Str) : Bool := !conn.isEmpty && conn.all (fun c => psB c && !(',' == c))

/-- the first alternative of `copula` (`punct_sym "-" punct_sym`), the only one that can begin inside a name -/
def cop1B : Str → Bool
  | a :: b :: c :: _ => psB a && '-' == b && psB c
  | _ => false

/-- no README-grammar copula begins inside the name -/
def noCopIn : Str → Bool
  | [] => true
  | c :: cs => !cop1B (c :: cs) && noCopIn cs

/-- the tail of a name: name characters, no grammar copula inside, not ending in `-` -/
def tailOKB (v : Str) : Bool := v.all acB && noCopIn v && !(v.getLast? == some '-')

/-- a name the grammar reads as one `atom_content`: it begins with a letter or a number, consists of name
characters, does not end in `-`, and no `punct_sym "-" punct_sym` pattern (the grammar's first copula
alternative) occurs in it -/
def gNameOKB (name : Str) : Bool :=
  (match name with | c :: _ => lnB c | [] => false) && tailOKB name

/-- the characters that open a statement or a compound -/
def openerB (c : Char) : Bool := c == '<' || c == '(' || c == '{' || c == '['

/-- an atom the grammar reads as the lexical parser does: the bare placeholder; or a prefix of punctuation /
symbol characters (not beginning with `_` or an opening bracket) and a grammar name -/
def gAtomOKB (pre name : Str) : Bool :=
  if pre == ['_'] then name.isEmpty
  else pre.all psB && (match pre with | c :: _ => !(c == '_') && !openerB c | [] => true) && gNameOKB name

/-- a copula the grammar's `copula` rule reads whole, and that cannot be taken for a blank or a placeholder -/
def gCopOKB (cop : Str) : Bool :=
  cop.length == 3 && gcopB cop && (match cop with | d :: _ => !wsB d && !(d == '_') | [] => false)

def isNil : LTerms → Bool
  | .nil => true
  | _ => false

mutual
  def gTermOKB : LTerm → Bool
    | .atom pre name => gAtomOKB pre name
    | .compound conn ts => gConnB conn && !isNil ts && gTermsOKB ts
    | .set l ts r => ((l == ['{'] && r == ['}']) || (l == ['['] && r == [']'])) && !isNil ts && gTermsOKB ts
    | .stmt cop s p => gCopOKB cop && gTermOKB s && gTermOKB p
  def gTermsOKB : LTerms → Bool
    | .nil => true
    | .cons t ts => gTermOKB t && gTermsOKB ts
end


/-- an entry of a truth or budget: non-empty, digits and dots -/
def gNumB (x : Str) : Bool := !x.isEmpty && x.all ddB

/-- a character inside a stamp: not `:`, not blank (and not `$`, so that a stamp is never taken for a budget) -/
def stampCh (c : Char) : Bool := !(c == ':') && !wsB c && !(c == '$')

def stampTxt (mid : Str) : Str := ':' :: (mid ++ [':'])

/-- a punctuation mark: one punctuation / symbol character that cannot continue a name or be taken for `=` -/
def gPunctB (p : Str) : Bool :=
  match p with
  | [c] => psB c && !acB c && !(c == '=')
  | _ => false

def stampMidOf (st : Str) : Str := (st.drop 1).dropLast

/-- a stamp: absent, or `:` … `:` around a non-empty text without `:`, blanks or `$` -/
def gStampB (st : Str) : Bool :=
  st.isEmpty || (st == stampTxt (stampMidOf st) && !(stampMidOf st).isEmpty && (stampMidOf st).all stampCh)

def gSentOKB (s : LSentence) : Bool :=
  gTermOKB s.term && gPunctB s.punct && gStampB s.stamp && s.truth.all gNumB

def gTaskOKB (k : LTask) : Bool := k.budget.all gNumB && gSentOKB k.sentence

/-- the text of a value that is not a task is not taken for one: it does not begin with `$`, or no second `$`
follows -/
def dollarOKB (txt : Str) : Bool :=
  match txt with
  | c :: w => !(c == '$') || !w.contains '$'
  | [] => true

def gValOKB (L : LFormat) : LNarsese → Bool
  | .term t => gTermOKB t && dollarOKB (L.fmtTerm t)
  | .sentence s => gSentOKB s && dollarOKB (L.fmtSentence s)
  | .task k => gTaskOKB k

mutual
  /-- the names: a placeholder has none; every other name begins with a letter or a number, consists of
  letters, numbers, `_`, `-`, does not end in `-`, and contains no `punct "-" punct` pattern (K3) -/
  def gNamesB : LTerm → Bool
    | .atom pre name => if pre == ['_'] then name.isEmpty else gNameOKB name
    | .compound _ ts => gNamesBs ts
    | .set _ ts _ => gNamesBs ts
    | .stmt _ s p => gNamesB s && gNamesB p
  def gNamesBs : LTerms → Bool
    | .nil => true
    | .cons t ts => gNamesB t && gNamesBs ts
end


/-- what the grammar-side needs beyond the lexical well-formedness of C02 -/
def gExtraB (L : LFormat) : LNarsese → Bool
  | .term t => gNamesB t && dollarOKB (L.fmtTerm t)
  | .sentence s => gNamesB s.term && gStampB s.stamp && dollarOKB (L.fmtSentence s)
  | .task k => gNamesB k.sentence.term && gStampB k.sentence.stamp

end Narsese.Peg
