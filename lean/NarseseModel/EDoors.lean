/-
  The fifth side door of the enum parser: `NarseseFormat::parse::<NarseseOptions<Budget, Term, Punctuation, Stamp,
  Truth>>` returns the filled slots themselves (`build_mid_result` without `transform_mid_result`), and
  `NarseseOptions::{has_sentence, has_task}` classify them.
-/
import NarseseModel.EParser
set_option autoImplicit false

namespace Narsese

/-- `NarseseOptions::has_sentence` -/
def Mid.hasSentence (m : Mid) : Bool := m.term.isSome && m.punct.isSome
/-- `NarseseOptions::has_task` -/
def Mid.hasTask (m : Mid) : Bool := m.budget.isSome && m.term.isSome && m.punct.isSome

/-- the kind `transform_mid_result` gives a mid result with a term: 0 term, 1 sentence, 2 task (as `NValue.kind`) -/
def Mid.kind (m : Mid) : Nat := if m.hasTask then 2 else if m.hasSentence then 1 else 0

namespace EFormat

/-- `parse::<NarseseOptions<…>>(input)` -/
def parseMidDoor (F : EFormat) (input : Str) : Res Mid :=
  (match F.buildMid (midFuel (Cur.ofEnv input)) (Cur.ofEnv input) {} with
   | .ok (_, m) => .ok m
   | .err h => .err h
   | .panic => .panic
   | .fuel => .fuel : PRes Mid).toRes

end EFormat
end Narsese
