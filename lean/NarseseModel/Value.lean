/-
  Truth, budget, stamp, punctuation, sentence, task, `NarseseValue` (enum model), with the checked /
  panicking constructors, accessors, casts (models of `sentence/*.rs`, `task/*.rs`,
  `api/data_structure/narsese_value.rs`, `api/conversion/impl_narsese_value.rs`).
-/
import NarseseModel.Sem
import NarseseModel.Num
set_option autoImplicit false

namespace Narsese

inductive Truth where
  | empty
  | single (f : Num)
  | double (f c : Num)
  deriving DecidableEq, Repr, Inhabited

inductive Budget where
  | empty
  | single (p : Num)
  | double (p d : Num)
  | triple (p d q : Num)
  deriving DecidableEq, Repr, Inhabited

inductive Stamp where
  | eternal | past | present | future
  | fixed (t : Int)
  deriving DecidableEq, Repr, Inhabited

inductive Punct where
  | judgement | goal | question | quest
  deriving DecidableEq, Repr, Inhabited

inductive Sentence where
  | judgement (t : Term) (tr : Truth) (s : Stamp)
  | goal (t : Term) (tr : Truth) (s : Stamp)
  | question (t : Term) (s : Stamp)
  | quest (t : Term) (s : Stamp)
  deriving DecidableEq, Repr, Inhabited

structure Task where
  sentence : Sentence
  budget : Budget
  deriving DecidableEq, Repr, Inhabited

/-- `NarseseValue<Term, Sentence, Task>`, generic as in Rust -/
inductive NValue (T S K : Type) where
  | term (t : T)
  | sentence (s : S)
  | task (k : K)
  deriving DecidableEq, Repr

abbrev Narsese := NValue Term Sentence Task

/-! ### validation (generic in the validity predicate; `f64` instance is `Num.in01`) -/

section Generic
variable {α : Type} (valid : α → Bool)

/-- `try_validate_01` -/
def tryValidate (x : α) : Res α := if valid x then .ok x else .err
/-- `validate_01` = `try_validate_01().unwrap()` -/
def validate (x : α) : Res α := if valid x then .ok x else .panic

inductive GTruth (α : Type) where
  | empty | single (f : α) | double (f c : α)
  deriving DecidableEq, Repr

inductive GBudget (α : Type) where
  | empty | single (p : α) | double (p d : α) | triple (p d q : α)
  deriving DecidableEq, Repr

def GTruth.newSingle (f : α) : Res (GTruth α) := (validate valid f).bind fun f => .ok (.single f)
def GTruth.newDouble (f c : α) : Res (GTruth α) :=
  (validate valid f).bind fun f => (validate valid c).bind fun c => .ok (.double f c)

/-- `Truth::try_from_floats` (the iterator is consumed lazily: surplus items are never looked at) -/
def GTruth.tryFromFloats : List α → Res (GTruth α)
  | [] => .ok .empty
  | f :: rest =>
    (tryValidate valid f).bind fun f =>
      match rest with
      | [] => GTruth.newSingle valid f
      | c :: _ => (tryValidate valid c).bind fun c => GTruth.newDouble valid f c

def GBudget.newSingle (p : α) : Res (GBudget α) := (validate valid p).bind fun p => .ok (.single p)
def GBudget.newDouble (p d : α) : Res (GBudget α) :=
  (validate valid p).bind fun p => (validate valid d).bind fun d => .ok (.double p d)
def GBudget.newTriple (p d q : α) : Res (GBudget α) :=
  (validate valid p).bind fun p => (validate valid d).bind fun d =>
    (validate valid q).bind fun q => .ok (.triple p d q)

def GBudget.tryFromFloats : List α → Res (GBudget α)
  | [] => .ok .empty
  | p :: r1 =>
    (tryValidate valid p).bind fun p =>
      match r1 with
      | [] => GBudget.newSingle valid p
      | d :: r2 =>
        (tryValidate valid d).bind fun d =>
          match r2 with
          | [] => GBudget.newDouble valid p d
          | q :: _ => (tryValidate valid q).bind fun q => GBudget.newTriple valid p d q

/-- accessors: `panic` exactly for components the variant does not have -/
def GTruth.f : GTruth α → Res α
  | .single f | .double f _ => .ok f
  | .empty => .panic
def GTruth.c : GTruth α → Res α
  | .double _ c => .ok c
  | _ => .panic
def GBudget.p : GBudget α → Res α
  | .single p | .double p _ | .triple p _ _ => .ok p
  | .empty => .panic
def GBudget.d : GBudget α → Res α
  | .double _ d | .triple _ d _ => .ok d
  | _ => .panic
def GBudget.q : GBudget α → Res α
  | .triple _ _ q => .ok q
  | _ => .panic

def GTruth.arity : GTruth α → Nat
  | .empty => 0 | .single _ => 1 | .double _ _ => 2
def GBudget.arity : GBudget α → Nat
  | .empty => 0 | .single _ => 1 | .double _ _ => 2 | .triple _ _ _ => 3

def GTruth.components : GTruth α → List α
  | .empty => [] | .single f => [f] | .double f c => [f, c]
def GBudget.components : GBudget α → List α
  | .empty => [] | .single p => [p] | .double p d => [p, d] | .triple p d q => [p, d, q]

end Generic

def Truth.ofG : GTruth Num → Truth
  | .empty => .empty | .single f => .single f | .double f c => .double f c
def Budget.ofG : GBudget Num → Budget
  | .empty => .empty | .single p => .single p | .double p d => .double p d | .triple p d q => .triple p d q

def Truth.tryFromFloats (xs : List Num) : Res Truth := (GTruth.tryFromFloats Num.in01 xs).map Truth.ofG
def Budget.tryFromFloats (xs : List Num) : Res Budget := (GBudget.tryFromFloats Num.in01 xs).map Budget.ofG

def Truth.components : Truth → List Num
  | .empty => [] | .single f => [f] | .double f c => [f, c]
def Budget.components : Budget → List Num
  | .empty => [] | .single p => [p] | .double p d => [p, d] | .triple p d q => [p, d, q]

def Budget.isEmpty : Budget → Bool
  | .empty => true
  | _ => false

/-! ### sentences and tasks -/

def Sentence.fromPunctuation (t : Term) (p : Punct) (s : Stamp) (tr : Truth) : Sentence :=
  match p with
  | .judgement => .judgement t tr s
  | .goal => .goal t tr s
  | .question => .question t s
  | .quest => .quest t s

def Sentence.term : Sentence → Term
  | .judgement t _ _ | .goal t _ _ | .question t _ | .quest t _ => t
def Sentence.punct : Sentence → Punct
  | .judgement .. => .judgement | .goal .. => .goal | .question .. => .question | .quest .. => .quest
def Sentence.stamp : Sentence → Stamp
  | .judgement _ _ s | .goal _ _ s | .question _ s | .quest _ s => s
/-- `get_truth().unwrap_or(&Truth::Empty)` as the printers use it -/
def Sentence.truthOrEmpty : Sentence → Truth
  | .judgement _ tr _ | .goal _ tr _ => tr
  | _ => .empty
def Sentence.truth? : Sentence → Option Truth
  | .judgement _ tr _ | .goal _ tr _ => some tr
  | _ => none

/-! ### casts and `NarseseValue` accessors (generic, as in Rust) -/

section Casts
variable {T S K : Type}

def NValue.isTerm : NValue T S K → Bool | .term _ => true | _ => false
def NValue.isSentence : NValue T S K → Bool | .sentence _ => true | _ => false
def NValue.isTask : NValue T S K → Bool | .task _ => true | _ => false

def NValue.tryIntoTerm : NValue T S K → Res T | .term t => .ok t | _ => .err
def NValue.tryIntoSentence : NValue T S K → Res S | .sentence s => .ok s | _ => .err
def NValue.tryIntoTask : NValue T S K → Res K | .task k => .ok k | _ => .err

def NValue.tryIntoTaskCompatible (castToTask : S → K) : NValue T S K → Res K
  | .task k => .ok k
  | .sentence s => .ok (castToTask s)
  | .term _ => .err

/-- `Result<Self, Self>`: `Sum.inl` = `Ok`, `Sum.inr` = `Err` (value handed back) -/
def NValue.tryCastToSentence (tryCast : K → Sum S K) : NValue T S K → Sum (NValue T S K) (NValue T S K)
  | .term t => .inr (.term t)
  | .sentence s => .inl (.sentence s)
  | .task k => match tryCast k with
    | .inl s => .inl (.sentence s)
    | .inr k => .inr (.task k)

/-- 0 = term, 1 = sentence, 2 = task -/
def NValue.kind : NValue T S K → Nat
  | .term _ => 0 | .sentence _ => 1 | .task _ => 2

end Casts

def Sentence.castToTask (s : Sentence) : Task := { sentence := s, budget := .empty }
def Task.tryCastToSentence (k : Task) : Sum Sentence Task :=
  if k.budget.isEmpty then .inl k.sentence else .inr k

end Narsese
