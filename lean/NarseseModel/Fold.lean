/-
  Lexical → enum folding (model of `conversion/inter_type/lexical_fold/impl_enum.rs`).
-/
import NarseseModel.Lex
import NarseseModel.EParser
set_option autoImplicit false

namespace Narsese

/-- `Term::to_terms_with_image`: the first placeholder gives the index and is dropped; later
placeholders stay in the component list. -/
def toTermsWithImage : List Term → Nat → Option Nat → List Term → Option Nat × List Term
  | [], _, idx, acc => (idx, acc)
  | t :: ts, i, idx, acc =>
    if t = .placeholder && idx.isNone then toTermsWithImage ts (i + 1) (some i) acc
    else toTermsWithImage ts (i + 1) idx (acc ++ [t])

/-- `new_image_*` → `new_term_vec_for_image`: panics when the index exceeds the component count -/
def newImage (k : ImgK) (idx : Nat) (ts : List Term) : Res Term :=
  if idx > ts.length then .panic else .ok (.image k idx (Terms.ofList ts))

namespace EFormat

/-- `fold_atom` -/
def foldAtom (F : EFormat) (pre name : Str) : Res Term :=
  if pre = F.preWord then .ok (.atom .word name)
  else if pre = F.prePlaceholder then .ok .placeholder
  else if pre = F.preIVar then .ok (.atom .ivar name)
  else if pre = F.preDVar then .ok (.atom .dvar name)
  else if pre = F.preQVar then .ok (.atom .qvar name)
  else if pre = F.preInterval then
    match parseUsize name with
    | some n => .ok (.interval n)
    | none => .err
  else if pre = F.preOperator then .ok (.atom .op name)
  else .err

/-- `fold_compound` (after the D4 repair) -/
def foldCompound (F : EFormat) (conn : Str) (ts : List Term) : Res Term :=
  if conn = F.cExtInt then .ok (.setlike .extInt (Terms.ofList (mkSetSem ts)))
  else if conn = F.cIntInt then .ok (.setlike .intInt (Terms.ofList (mkSetSem ts)))
  else if conn = F.cExtDiff then
    match ts with
    | a :: b :: _ => .ok (.bin .extDiff a b)
    | _ => .err
  else if conn = F.cIntDiff then
    match ts with
    | a :: b :: _ => .ok (.bin .intDiff a b)
    | _ => .err
  else if conn = F.cProduct then .ok (.seqlike .product (Terms.ofList ts))
  else if conn = F.cExtImg then
    match toTermsWithImage ts 0 none [] with
    | (some i, ts') => newImage .ext i ts'
    | (none, _) => .err
  else if conn = F.cIntImg then
    match toTermsWithImage ts 0 none [] with
    | (some i, ts') => newImage .int i ts'
    | (none, _) => .err
  else if conn = F.cConj then .ok (.setlike .conj (Terms.ofList (mkSetSem ts)))
  else if conn = F.cDisj then .ok (.setlike .disj (Terms.ofList (mkSetSem ts)))
  else if conn = F.cNeg then
    match ts with
    | a :: _ => .ok (.neg a)
    | [] => .err
  else if conn = F.cSeqConj then .ok (.seqlike .seqConj (Terms.ofList ts))
  else if conn = F.cParConj then .ok (.setlike .parConj (Terms.ofList (mkSetSem ts)))
  else .err

/-- `fold_set` -/
def foldSet (F : EFormat) (l r : Str) (ts : List Term) : Res Term :=
  if (l, r) = (F.extSetL, F.extSetR) then .ok (.setlike .extSet (Terms.ofList (mkSetSem ts)))
  else if (l, r) = (F.intSetL, F.intSetR) then .ok (.setlike .intSet (Terms.ofList (mkSetSem ts)))
  else .err

/-- `fold_statement` -/
def foldStatement (F : EFormat) (cop : Str) (s p : Term) : Res Term :=
  match F.copulaTable.find? (fun e => cop = e.1) with
  | some (_, ck) => .ok (ck.build s p)
  | none => .err

mutual
  /-- `TryFoldInto<EnumTerm>` for lexical terms -/
  def foldTerm (F : EFormat) : LTerm → Res Term
    | .atom pre name => F.foldAtom pre name
    | .compound conn ts =>
      match foldTerms F ts with
      | .ok ts' => F.foldCompound conn ts'
      | .err => .err | .panic => .panic | .fuel => .fuel
    | .set l ts r =>
      match foldTerms F ts with
      | .ok ts' => F.foldSet l r ts'
      | .err => .err | .panic => .panic | .fuel => .fuel
    | .stmt cop s p =>
      match foldTerm F s with
      | .ok s' =>
        match foldTerm F p with
        | .ok p' => F.foldStatement cop s' p'
        | .err => .err | .panic => .panic | .fuel => .fuel
      | .err => .err | .panic => .panic | .fuel => .fuel
  def foldTerms (F : EFormat) : LTerms → Res (List Term)
    | .nil => .ok []
    | .cons t ts =>
      match foldTerm F t with
      | .ok t' =>
        match foldTerms F ts with
        | .ok ts' => .ok (t' :: ts')
        | .err => .err | .panic => .panic | .fuel => .fuel
      | .err => .err | .panic => .panic | .fuel => .fuel
end

/-- `try_fold_float_vec`: every string must parse as `f64` -/
def foldFloats : List Str → Res (List Num)
  | [] => .ok []
  | s :: ss =>
    match readNum s with
    | some x => (foldFloats ss).map (x :: ·)
    | none => .err

def foldTruth (xs : List Str) : Res Truth := (foldFloats xs).bind Truth.tryFromFloats
def foldBudget (xs : List Str) : Res Budget := (foldFloats xs).bind Budget.tryFromFloats

/-- `TryFoldInto<EnumSentence>`: term, truth, stamp (side door), punctuation (side door), in this order -/
def foldSentence (F : EFormat) (s : LSentence) : Res Sentence :=
  (F.foldTerm s.term).bind fun t =>
  (foldTruth s.truth).bind fun tr =>
  (F.parseStampDoor s.stamp).bind fun st =>
  (F.parsePunctDoor s.punct).bind fun p =>
  .ok (Sentence.fromPunctuation t p st tr)

def foldTask (F : EFormat) (k : LTask) : Res Task :=
  (foldBudget k.budget).bind fun b =>
  (F.foldSentence k.sentence).bind fun s =>
  .ok { sentence := s, budget := b }

def foldNarsese (F : EFormat) : LNarsese → Res Narsese
  | .term t => (F.foldTerm t).map .term
  | .sentence s => (F.foldSentence s).map .sentence
  | .task k => (F.foldTask k).map .task

end EFormat
end Narsese
