/-
  Lexical → enum folding (model of `conversion/inter_type/lexical_fold/impl_enum.rs`).
-/
import NarseseModel.Lex
import NarseseModel.EParser
set_option autoImplicit false

namespace Narsese

/-- `Term::to_terms_with_image`: the first placeholder gives the index and is dropped; later
placeholders stay in the component list. -/
def toTermsWithImage : List Term → Nat → Option Nat → List Term → Option Nat × List Term
  | [], _, idx, acc => (idx, acc)
  | t :: ts, i, idx, acc =>
    if t = .placeholder && idx.isNone then toTermsWithImage ts (i + 1) (some i) acc
    else toTermsWithImage ts (i + 1) idx (acc ++ [t])

/-- `new_image_*` → `new_term_vec_for_image`: panics when the index exceeds the component count -/
def newImage (k : ImgK) (idx : Nat) (ts : List Term) : Res Term :=
  if idx > ts.length then .panic else .ok (.image k idx (Terms.ofList ts))

namespace EFormat

/-- prefixes in the order `fold_atom` compares them -/
def foldAtomTable (F : EFormat) : List (Str × AtomHead) :=
  [ (F.preWord, .named .word),
    (F.prePlaceholder, .placeholder),
    (F.preIVar, .named .ivar),
    (F.preDVar, .named .dvar),
    (F.preQVar, .named .qvar),
    (F.preInterval, .interval),
    (F.preOperator, .named .op) ]

def buildAtom : AtomHead → Str → Res Term
  | .named k, name => .ok (.atom k name)
  | .placeholder, _ => .ok .placeholder
  | .interval, name =>
    match parseUsize name with
    | some n => .ok (.interval n)
    | none => .err

/-- `fold_atom`: first prefix EQUAL to the lexical one -/
def foldAtom (F : EFormat) (pre name : Str) : Res Term :=
  match F.foldAtomTable.find? (fun e => pre = e.1) with
  | some (_, hd) => buildAtom hd name
  | none => .err

/-- connecters in the order `fold_compound` compares them -/
def foldConnTable (F : EFormat) : List (Str × ConnK) :=
  [ (F.cExtInt, .set .extInt),
    (F.cIntInt, .set .intInt),
    (F.cExtDiff, .diff .extDiff),
    (F.cIntDiff, .diff .intDiff),
    (F.cProduct, .seq .product),
    (F.cExtImg, .img .ext),
    (F.cIntImg, .img .int),
    (F.cConj, .set .conj),
    (F.cDisj, .set .disj),
    (F.cNeg, .neg),
    (F.cSeqConj, .seq .seqConj),
    (F.cParConj, .set .parConj) ]

/-- what `fold_compound` builds for a connecter class (after the D4 repair: each difference connecter
builds its own difference). Surplus components of negation / differences are ignored. -/
def buildCompound : ConnK → List Term → Res Term
  | .set k, ts => .ok (.setlike k (Terms.ofList (mkSetSem ts)))
  | .seq k, ts => .ok (.seqlike k (Terms.ofList ts))
  | .diff k, ts =>
    match ts with
    | a :: b :: _ => .ok (.bin k a b)
    | _ => .err
  | .img k, ts =>
    match toTermsWithImage ts 0 none [] with
    | (some i, ts') => newImage k i ts'
    | (none, _) => .err
  | .neg, ts =>
    match ts with
    | a :: _ => .ok (.neg a)
    | [] => .err
  | .operatorUnsupported, _ => .err

/-- `fold_compound` -/
def foldCompound (F : EFormat) (conn : Str) (ts : List Term) : Res Term :=
  match F.foldConnTable.find? (fun e => conn = e.1) with
  | some (_, ck) => buildCompound ck ts
  | none => .err

/-- `fold_set` -/
def foldSet (F : EFormat) (l r : Str) (ts : List Term) : Res Term :=
  match [((F.extSetL, F.extSetR), SetK.extSet), ((F.intSetL, F.intSetR), SetK.intSet)].find? (fun e => (l, r) = e.1) with
  | some (_, k) => .ok (.setlike k (Terms.ofList (mkSetSem ts)))
  | none => .err

/-- `fold_statement` -/
def foldStatement (F : EFormat) (cop : Str) (s p : Term) : Res Term :=
  match F.copulaTable.find? (fun e => cop = e.1) with
  | some (_, ck) => .ok (ck.build s p)
  | none => .err

mutual
  /-- `TryFoldInto<EnumTerm>` for lexical terms -/
  def foldTerm (F : EFormat) : LTerm → Res Term
    | .atom pre name => F.foldAtom pre name
    | .compound conn ts =>
      match foldTerms F ts with
      | .ok ts' => F.foldCompound conn ts'
      | .err => .err | .panic => .panic | .fuel => .fuel
    | .set l ts r =>
      match foldTerms F ts with
      | .ok ts' => F.foldSet l r ts'
      | .err => .err | .panic => .panic | .fuel => .fuel
    | .stmt cop s p =>
      match foldTerm F s with
      | .ok s' =>
        match foldTerm F p with
        | .ok p' => F.foldStatement cop s' p'
        | .err => .err | .panic => .panic | .fuel => .fuel
      | .err => .err | .panic => .panic | .fuel => .fuel
  def foldTerms (F : EFormat) : LTerms → Res (List Term)
    | .nil => .ok []
    | .cons t ts =>
      match foldTerm F t with
      | .ok t' =>
        match foldTerms F ts with
        | .ok ts' => .ok (t' :: ts')
        | .err => .err | .panic => .panic | .fuel => .fuel
      | .err => .err | .panic => .panic | .fuel => .fuel
end

/-- `try_fold_float_vec`: every string must parse as `f64` -/
def foldFloats : List Str → Res (List Num)
  | [] => .ok []
  | s :: ss =>
    match readNum s with
    | some x => (foldFloats ss).map (x :: ·)
    | none => .err

def foldTruth (xs : List Str) : Res Truth := (foldFloats xs).bind Truth.tryFromFloats
def foldBudget (xs : List Str) : Res Budget := (foldFloats xs).bind Budget.tryFromFloats

/-- `TryFoldInto<EnumSentence>`: term, truth, stamp (side door), punctuation (side door), in this order -/
def foldSentence (F : EFormat) (s : LSentence) : Res Sentence :=
  (F.foldTerm s.term).bind fun t =>
  (foldTruth s.truth).bind fun tr =>
  (F.parseStampDoor s.stamp).bind fun st =>
  (F.parsePunctDoor s.punct).bind fun p =>
  .ok (Sentence.fromPunctuation t p st tr)

def foldTask (F : EFormat) (k : LTask) : Res Task :=
  (foldBudget k.budget).bind fun b =>
  (F.foldSentence k.sentence).bind fun s =>
  .ok { sentence := s, budget := b }

def foldNarsese (F : EFormat) : LNarsese → Res Narsese
  | .term t => (F.foldTerm t).map .term
  | .sentence s => (F.foldSentence s).map .sentence
  | .task k => (F.foldTask k).map .task

end EFormat
end Narsese
