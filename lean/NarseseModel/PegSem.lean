/-
  Declarative (big-step, fuel-free) semantics of pest-style PEGs, and a fuel-honest interpreter.

  `Ev G atomic p s res` : expression `p` evaluated on input `s` yields `res` —
  `some (rest, tokens)` (a prefix matched) or `none` (failure). This is the usual PEG semantics (ordered
  choice, greedy repetition, negative look-ahead) with pest's conventions: implicit `WHITESPACE*` between the
  elements of sequences and repetitions outside atomic rules, atomic (`@`) and silent (`_`) rules, one token
  per non-silent rule matched outside atomic context. The C11 theorems are stated against THIS relation.

  `runS` is the interpreter with an explicit third outcome `out` (fuel exhausted) instead of silently
  stopping; `runS_sound` (Proofs/Peg/Sound.lean): whenever it answers `ok` / `fail`, the relation agrees.
-/
import NarseseModel.Peg
set_option autoImplicit false

namespace Narsese.Peg

/-- the token(s) a rule reference contributes -/
def wrapRef (atomic : Bool) (r : Rule) (n : String) (s : Str) (res : Option (Str × List PTree)) :
    Option (Str × List PTree) :=
  match res with
  | none => none
  | some (rest, kids) =>
    let text := s.take (s.length - rest.length)
    if r.mod == .silent then some (rest, kids)
    else if atomic then some (rest, [])
    else if r.mod == .atomic then some (rest, [.node n text []])
    else some (rest, [.node n text kids])

mutual
  inductive Ev (G : Grammar) : Bool → Peg → Str → Option (Str × List PTree) → Prop where
    | lit (a : Bool) (k s : Str) : Ev G a (.lit k) s ((strip k s).map (fun r => (r, [])))
    | cls_ok (a : Bool) (n : String) (tbl : List (Nat × Nat)) (c : Char) (cs : Str) :
        G.cls? n = some tbl → inRanges tbl c = true → Ev G a (.cls n) (c :: cs) (some (cs, []))
    | cls_no (a : Bool) (n : String) (tbl : List (Nat × Nat)) (c : Char) (cs : Str) :
        G.cls? n = some tbl → inRanges tbl c = false → Ev G a (.cls n) (c :: cs) none
    | cls_eof (a : Bool) (n : String) : Ev G a (.cls n) [] none
    | cls_unknown (a : Bool) (n : String) (s : Str) : G.cls? n = none → Ev G a (.cls n) s none
    | ref (a : Bool) (n : String) (r : Rule) (s : Str) (res : Option (Str × List PTree)) :
        G.rule? n = some r → Ev G (a || r.mod == .atomic) r.body s res → Ev G a (.ref n) s (wrapRef a r n s res)
    | ref_unknown (a : Bool) (n : String) (s : Str) : G.rule? n = none → Ev G a (.ref n) s none
    | seq_fail (a : Bool) (p q : Peg) (s : Str) : Ev G a p s none → Ev G a (.seq p q) s none
    | seq (a : Bool) (p q : Peg) (s r1 r1' : Str) (k1 : List PTree) (res : Option (Str × List PTree)) :
        Ev G a p s (some (r1, k1)) → Skip G a r1 r1' → Ev G a q r1' res →
        Ev G a (.seq p q) s (res.map (fun x => (x.1, k1 ++ x.2)))
    | alt_l (a : Bool) (p q : Peg) (s : Str) (r : Str × List PTree) :
        Ev G a p s (some r) → Ev G a (.alt p q) s (some r)
    | alt_r (a : Bool) (p q : Peg) (s : Str) (res : Option (Str × List PTree)) :
        Ev G a p s none → Ev G a q s res → Ev G a (.alt p q) s res
    | opt_some (a : Bool) (p : Peg) (s : Str) (r : Str × List PTree) : Ev G a p s (some r) → Ev G a (.opt p) s (some r)
    | opt_none (a : Bool) (p : Peg) (s : Str) : Ev G a p s none → Ev G a (.opt p) s (some (s, []))
    | neg_some (a : Bool) (p : Peg) (s : Str) (r : Str × List PTree) : Ev G a p s (some r) → Ev G a (.neg p) s none
    | neg_none (a : Bool) (p : Peg) (s : Str) : Ev G a p s none → Ev G a (.neg p) s (some (s, []))
    | star (a : Bool) (p : Peg) (s : Str) (out : Str × List PTree) : Many G a p s [] out → Ev G a (.star p) s (some out)
    | plus_fail (a : Bool) (p : Peg) (s : Str) : Ev G a p s none → Ev G a (.plus p) s none
    | plus (a : Bool) (p : Peg) (s r1 : Str) (k1 : List PTree) (out : Str × List PTree) :
        Ev G a p s (some (r1, k1)) → Many G a p r1 k1 out → Ev G a (.plus p) s (some out)
  /-- further repetitions: stop at the first failure or at a repetition that consumes nothing -/
  inductive Many (G : Grammar) : Bool → Peg → Str → List PTree → Str × List PTree → Prop where
    | stop_fail (a : Bool) (p : Peg) (s s' : Str) (acc : List PTree) :
        Skip G a s s' → Ev G a p s' none → Many G a p s acc (s, acc)
    | stop_stuck (a : Bool) (p : Peg) (s s' r : Str) (k acc : List PTree) :
        Skip G a s s' → Ev G a p s' (some (r, k)) → ¬ r.length < s.length → Many G a p s acc (s, acc)
    | step (a : Bool) (p : Peg) (s s' r : Str) (k acc : List PTree) (out : Str × List PTree) :
        Skip G a s s' → Ev G a p s' (some (r, k)) → r.length < s.length → Many G a p r (acc ++ k) out →
        Many G a p s acc out
  /-- the implicit `WHITESPACE*` (nothing inside atomic rules) -/
  inductive Skip (G : Grammar) : Bool → Str → Str → Prop where
    | atomic (s : Str) : Skip G true s s
    | no_rule (s : Str) : G.rule? "WHITESPACE" = none → Skip G false s s
    | stop (s : Str) (r : Rule) : G.rule? "WHITESPACE" = some r → Ev G true r.body s none → Skip G false s s
    | stuck (s rest : Str) (r : Rule) (k : List PTree) : G.rule? "WHITESPACE" = some r →
        Ev G true r.body s (some (rest, k)) → ¬ rest.length < s.length → Skip G false s s
    | step (s rest s' : Str) (r : Rule) (k : List PTree) : G.rule? "WHITESPACE" = some r →
        Ev G true r.body s (some (rest, k)) → rest.length < s.length → Skip G false rest s' → Skip G false s s'
end

/-- a whole input derives a tree from the start rule -/
def DerivesAll (G : Grammar) (start : String) (s : Str) (t : PTree) : Prop :=
  Ev G false (.ref start) s (some ([], [t]))

/-- the grammar's reading of a string as a lexical value (declarative counterpart of `reference`) -/
def Reads (G : Grammar) (s : Str) (v : LNarsese) : Prop :=
  ∃ t, DerivesAll G "narsese" s t ∧ toNarsese t = some v

/-! ### fuel-honest interpreter -/

inductive PR where
  | ok (rest : Str) (kids : List PTree)
  | fail
  | out
  deriving Repr, Inhabited

inductive SR where
  | ok (s : Str)
  | out
  deriving Repr, Inhabited

def PR.toOpt : PR → Option (Str × List PTree)
  | .ok r k => some (r, k)
  | _ => none

def wrapRefS (atomic : Bool) (r : Rule) (n : String) (s : Str) (res : PR) : PR :=
  match res with
  | .ok rest kids =>
    let text := s.take (s.length - rest.length)
    if r.mod == .silent then .ok rest kids
    else if atomic then .ok rest []
    else if r.mod == .atomic then .ok rest [.node n text []]
    else .ok rest [.node n text kids]
  | .fail => .fail
  | .out => .out

mutual
  def runS (G : Grammar) : Nat → Bool → Peg → Str → PR
    | 0, _, _, _ => .out
    | fuel + 1, atomic, p, s =>
      match p with
      | .lit k =>
        match strip k s with
        | some r => .ok r []
        | none => .fail
      | .cls n =>
        match G.cls? n, s with
        | some tbl, c :: cs => if inRanges tbl c then .ok cs [] else .fail
        | _, _ => .fail
      | .ref n =>
        match G.rule? n with
        | none => .fail
        | some r => wrapRefS atomic r n s (runS G fuel (atomic || r.mod == .atomic) r.body s)
      | .seq a b =>
        match runS G fuel atomic a s with
        | .ok r1 k1 =>
          match skipS G fuel atomic r1 with
          | .ok r1' =>
            match runS G fuel atomic b r1' with
            | .ok r2 k2 => .ok r2 (k1 ++ k2)
            | .fail => .fail
            | .out => .out
          | .out => .out
        | .fail => .fail
        | .out => .out
      | .alt a b =>
        match runS G fuel atomic a s with
        | .ok r k => .ok r k
        | .fail => runS G fuel atomic b s
        | .out => .out
      | .opt a =>
        match runS G fuel atomic a s with
        | .ok r k => .ok r k
        | .fail => .ok s []
        | .out => .out
      | .neg a =>
        match runS G fuel atomic a s with
        | .ok _ _ => .fail
        | .fail => .ok s []
        | .out => .out
      | .star a => manyS G fuel atomic a s []
      | .plus a =>
        match runS G fuel atomic a s with
        | .ok r1 k1 => manyS G fuel atomic a r1 k1
        | .fail => .fail
        | .out => .out
  def manyS (G : Grammar) : Nat → Bool → Peg → Str → List PTree → PR
    | 0, _, _, _, _ => .out
    | fuel + 1, atomic, a, s, acc =>
      match skipS G fuel atomic s with
      | .ok s' =>
        match runS G fuel atomic a s' with
        | .ok r k => if r.length < s.length then manyS G fuel atomic a r (acc ++ k) else .ok s acc
        | .fail => .ok s acc
        | .out => .out
      | .out => .out
  def skipS (G : Grammar) : Nat → Bool → Str → SR
    | 0, _, _ => .out
    | fuel + 1, atomic, s =>
      if atomic then .ok s
      else
        match G.rule? "WHITESPACE" with
        | none => .ok s
        | some r =>
          match runS G fuel true r.body s with
          | .ok rest _ => if rest.length < s.length then skipS G fuel false rest else .ok s
          | .fail => .ok s
          | .out => .out
end

def parseAllS (G : Grammar) (start : String) (s : Str) : Option PTree :=
  match runS G (40 * s.length + 400) false (.ref start) s with
  | .ok [] [t] => some t
  | _ => none

/-- the executable reference used by the check -/
def referenceS (G : Grammar) (s : Str) : Option LNarsese := (parseAllS G "narsese" s).bind toNarsese

end Narsese.Peg
