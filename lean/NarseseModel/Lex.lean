/-
  Lexical Narsese: data (`src/lexical/*.rs`), format record (`impl_lexical/format.rs`), formatter
  (`impl_lexical/formatter.rs`) and parser (`impl_lexical/parser.rs`).
  Dictionaries are lists IN MATCH ORDER (the iteration order of `prefix_terms()` / `suffix_terms()`),
  generated from the compiled crate.
-/
import NarseseModel.Value
set_option autoImplicit false

namespace Narsese

mutual
  inductive LTerm where
    | atom (pre name : Str)
    | compound (conn : Str) (ts : LTerms)
    | set (l : Str) (ts : LTerms) (r : Str)
    | stmt (cop : Str) (s p : LTerm)
  inductive LTerms where
    | nil
    | cons (t : LTerm) (ts : LTerms)
end

deriving instance DecidableEq for LTerm, LTerms
deriving instance Repr for LTerm, LTerms
instance : Inhabited LTerm := ⟨.atom [] []⟩
instance : Inhabited LTerms := ⟨.nil⟩

namespace LTerms
def toList : LTerms → List LTerm
  | .nil => []
  | .cons t ts => t :: toList ts
def ofList : List LTerm → LTerms
  | [] => .nil
  | t :: ts => .cons t (ofList ts)
def length : LTerms → Nat
  | .nil => 0
  | .cons _ ts => length ts + 1
end LTerms

structure LSentence where
  term : LTerm
  punct : Str
  stamp : Str
  truth : List Str
  deriving DecidableEq, Repr, Inhabited

structure LTask where
  budget : List Str
  sentence : LSentence
  deriving DecidableEq, Repr, Inhabited

abbrev LNarsese := NValue LTerm LSentence LTask

def LSentence.castToTask (s : LSentence) : LTask := { budget := [], sentence := s }
def LTask.tryCastToSentence (k : LTask) : Sum LSentence LTask :=
  if k.budget.isEmpty then .inl k.sentence else .inr k

structure LFormat where
  isWsTbl : List (Nat × Nat)          -- `space.is_for_parse`
  removeSpaces : Bool
  spaceTerms : Str
  spaceItems : Str
  atomPrefixes : List Str              -- prefix match order
  isIdentTbl : List (Nat × Nat)
  setBrackets : List (Str × Str)       -- prefix match order
  compL : Str
  compR : Str
  separator : Str
  connecters : List Str                -- prefix match order
  stmtL : Str
  stmtR : Str
  copulas : List Str                   -- prefix match order
  punctuations : List Str              -- suffix match order
  truthL : Str
  truthR : Str
  truthSep : Str
  isTruthTbl : List (Nat × Nat)
  stampBrackets : List (Str × Str)     -- (left, right), suffix match order on `right`
  isStampTbl : List (Nat × Nat)
  budgetL : Str
  budgetR : Str
  budgetSep : Str
  isBudgetTbl : List (Nat × Nat)
  deriving Repr, Inhabited

namespace LFormat

/-! ### formatter -/

def joinComponents (L : LFormat) (cs : List Str) : Str := joinWith (L.separator ++ L.spaceTerms) cs

mutual
  def fmtTerm (L : LFormat) : LTerm → Str
    | .atom pre name => pre ++ name
    | .compound conn ts =>
        L.compL ++ conn ++ L.separator ++ L.spaceTerms ++ L.joinComponents (fmtTerms L ts) ++ L.compR
    | .set l ts r => l ++ L.joinComponents (fmtTerms L ts) ++ r
    | .stmt cop s p =>
        L.stmtL ++ fmtTerm L s ++ L.spaceTerms ++ cop ++ L.spaceTerms ++ fmtTerm L p ++ L.stmtR
  def fmtTerms (L : LFormat) : LTerms → List Str
    | .nil => []
    | .cons t ts => fmtTerm L t :: fmtTerms L ts
end

def fmtTruth (L : LFormat) (t : List Str) : Str :=
  if t.isEmpty then [] else L.truthL ++ joinWith L.truthSep t ++ L.truthR

def fmtBudget (L : LFormat) (b : List Str) : Str := L.budgetL ++ joinWith L.budgetSep b ++ L.budgetR

def joinLest (sep : Str) : List Str → Str
  | [] => []
  | x :: xs => x ++ (xs.filter (fun s => !s.isEmpty)).foldr (fun s acc => sep ++ s ++ acc) []

/-- note: joined with `space.format_items` (the enum printer uses `format_terms`) -/
def fmtSentence (L : LFormat) (s : LSentence) : Str :=
  L.fmtTerm s.term ++ joinLest L.spaceItems [s.punct, s.stamp, L.fmtTruth s.truth]

def fmtTask (L : LFormat) (k : LTask) : Str :=
  let b := L.fmtBudget k.budget
  let s := L.fmtSentence k.sentence
  if s.isEmpty then b else b ++ L.spaceItems ++ s

def fmtNarsese (L : LFormat) : LNarsese → Str
  | .term t => L.fmtTerm t
  | .sentence s => L.fmtSentence s
  | .task k => L.fmtTask k

/-! ### parser -/

def isWs (L : LFormat) (c : Char) : Bool := inRanges L.isWsTbl c
def isIdent (L : LFormat) (c : Char) : Bool := inRanges L.isIdentTbl c

/-- `idealize_env` -/
def idealize (L : LFormat) (input : Str) : Str :=
  if L.removeSpaces then input.filter (fun c => !L.isWs c) else input

/-- `env[a..b]`: panics unless `a ≤ b ≤ len` -/
def slice (env : Str) (a b : Nat) : Res Str :=
  if a ≤ b && b ≤ env.length then .ok ((env.take b).drop a) else .panic

/-- `env[a..]` -/
def sliceFrom (env : Str) (a : Nat) : Res Str :=
  if a ≤ env.length then .ok (env.drop a) else .panic

/-- `match_prefix_char_slice` over a plain dictionary -/
def matchPrefix (dict : List Str) (s : Str) : Option Str := dict.find? (fun k => isPre k s)
/-- over a pair dictionary, keyed by the left element -/
def matchPrefixPair (dict : List (Str × Str)) (s : Str) : Option (Str × Str) := dict.find? (fun p => isPre p.1 s)
/-- `match_suffix_char_slice` -/
def matchSuffix (dict : List Str) (s : Str) : Option Str := dict.find? (fun k => isSuf k s)
def matchSuffixPair (dict : List (Str × Str)) (s : Str) : Option (Str × Str) := dict.find? (fun p => isSuf p.2 s)

/-- `segment_some_prefix`: from `start`, scan to the first occurrence of `right`, every skipped char
must satisfy `verify`; returns the border just after `right`. Works on the suffix `s = env[i..]`. -/
def scanToRight (right : Str) (verify : Char → Bool) : Str → Option Nat
  | [] => none
  | c :: cs =>
    if isPre right (c :: cs) then some right.length
    else if verify c then (scanToRight right verify cs).map (· + 1)
    else none

/-- `segment_some_suffix` on the reversed content: scan back to the first occurrence of `left`;
returns how many chars (from the right end of the content) belong to the item, `left` included. -/
def scanToLeft (leftRev : Str) (verify : Char → Bool) : Str → Option Nat
  | [] => if leftRev.isEmpty then some 0 else none
  | c :: cs =>
    if isPre leftRev (c :: cs) then some leftRev.length
    else if verify c then (scanToLeft leftRev verify cs).map (· + 1)
    else none

/-- `str::trim_start_matches(pat)` (repeated; unchanged for an empty pattern) -/
def trimStartMatches (pat : Str) : Nat → Str → Str
  | 0, s => s
  | n + 1, s =>
    if pat.isEmpty then s
    else match strip pat s with
      | some r => trimStartMatches pat n r
      | none => s

def trimEndMatches (pat : Str) (s : Str) : Str :=
  (trimStartMatches pat.reverse s.length s.reverse).reverse

/-- `str::split(sep)` for a non-empty separator -/
def splitOnAux (sep : Str) : Nat → Str → Str → List Str
  | 0, cur, _ => [cur.reverse]
  | _ + 1, cur, [] => [cur.reverse]
  | n + 1, cur, c :: cs =>
    match strip sep (c :: cs) with
    | some r => cur.reverse :: splitOnAux sep n [] r
    | none => splitOnAux sep n (c :: cur) cs

def splitOn (sep : Str) (s : Str) : List Str :=
  if sep.isEmpty then [s] else splitOnAux sep (s.length + 1) [] s

/-- content between (repeatedly trimmed) brackets, split at the separator, empty pieces dropped -/
def splitItems (l r sep : Str) (s : Str) : List Str :=
  let body := trimEndMatches r (trimStartMatches l s.length s)
  (splitOn sep body).filter (fun x => !x.isEmpty)

/-- `segment_brackets_prefix` for a single bracket pair; `(item text, right border)` -/
def segBracketsPrefix (l r : Str) (verify : Char → Bool) (env : Str) : Option (Str × Nat) :=
  match strip l env with
  | none => none
  | some rest =>
    match scanToRight r verify rest with
    | some n => let border := l.length + n; some (env.take border, border)
    | none => none

/-- `segment_brackets_suffix` for the pair the suffix dictionary selected; `(item text, left border)` -/
def segBracketsSuffix (l r : Str) (verify : Char → Bool) (env : Str) : Res (Option (Str × Nat)) :=
  -- `&env[..env.len() - right.chars().count()]`
  if r.length ≤ env.length then
    let content := env.take (env.length - r.length)
    match scanToLeft l.reverse verify content.reverse with
    | some n =>
      let leftBorder := content.length - n
      .ok (some (env.drop leftBorder, leftBorder))
    | none => .ok none
  else .panic

def segBudget (L : LFormat) (env : Str) : Option (List Str × Nat) :=
  (segBracketsPrefix L.budgetL L.budgetR (inRanges L.isBudgetTbl) env).map
    (fun p => (splitItems L.budgetL L.budgetR L.budgetSep p.1, p.2))

def segTruth (L : LFormat) (env : Str) : Res (Option (List Str × Nat)) :=
  if isSuf L.truthR env then
    (segBracketsSuffix L.truthL L.truthR (inRanges L.isTruthTbl) env).map
      (fun o => o.map (fun p => (splitItems L.truthL L.truthR L.truthSep p.1, p.2)))
  else .ok none

def segStamp (L : LFormat) (env : Str) : Res (Option (Str × Nat)) :=
  match matchSuffixPair L.stampBrackets env with
  | some (l, r) => segBracketsSuffix l r (inRanges L.isStampTbl) env
  | none => .ok none

def segPunct (L : LFormat) (env : Str) : Option (Str × Nat) :=
  (matchSuffix L.punctuations env).map (fun p => (p, env.length - p.length))

/-- `collect_some_prefix` in `segment_atom`: identifier chars, stopping where a copula begins -/
def scanIdent (L : LFormat) : Str → Nat
  | [] => 0
  | c :: cs =>
    if L.isIdent c && (matchPrefix L.copulas (c :: cs)).isNone then scanIdent L cs + 1 else 0

/-- `segment_atom`; returns the term and the number of chars consumed -/
def segAtom (L : LFormat) (env : Str) : Res (LTerm × Nat) :=
  match matchPrefix L.atomPrefixes env with
  | none => .err
  | some pre =>
    let start := pre.length
    let n := scanIdent L (env.drop start)
    if n = 0 && pre.isEmpty then .err
    else .ok (.atom pre ((env.drop start).take n), start + n)

mutual
  /-- `segment_term`: set, compound, statement, else atom (first `Ok` wins) -/
  def segTerm (L : LFormat) : Nat → Str → Res (LTerm × Nat)
    | 0, _ => .fuel
    | fuel + 1, env =>
      match segSet L fuel env with
      | .ok r => .ok r
      | .panic => .panic
      | .fuel => .fuel
      | .err =>
        match segCompound L fuel env with
        | .ok r => .ok r
        | .panic => .panic
        | .fuel => .fuel
        | .err =>
          match segStatement L fuel env with
          | .ok r => .ok r
          | .panic => .panic
          | .fuel => .fuel
          | .err => segAtom L env

  /-- the component loop shared by sets and compounds; `tb` = `term_begin`.
  Returns the terms and the right border. -/
  def segComponents (L : LFormat) : Nat → Str → Str → Nat → List LTerm → Res (List LTerm × Nat)
    | 0, _, _, _, _ => .fuel
    | fuel + 1, right, env, tb, acc =>
      match sliceFrom env tb with
      | .ok s =>
        if isPre right s then .ok (acc, tb + right.length)
        else
          let tb' := if isPre L.separator s then tb + L.separator.length else tb
          match sliceFrom env tb' with
          | .ok s' =>
            match segTerm L fuel s' with
            | .ok (t, n) => segComponents L fuel right env (tb' + n) (acc ++ [t])
            | .err => .err
            | .panic => .panic
            | .fuel => .fuel
          | .err => .err
          | .panic => .panic
          | .fuel => .fuel
      | .err => .err
      | .panic => .panic
      | .fuel => .fuel

  /-- `segment_term_set` -/
  def segSet (L : LFormat) : Nat → Str → Res (LTerm × Nat)
    | 0, _ => .fuel
    | fuel + 1, env =>
      match matchPrefixPair L.setBrackets env with
      | none => .err
      | some (l, r) =>
        match segTerm L fuel (env.drop l.length) with
        | .ok (t, n) =>
          match segComponents L fuel r env (l.length + n) [t] with
          | .ok (ts, border) => .ok (.set l (LTerms.ofList ts) r, border)
          | .err => .err
          | .panic => .panic
          | .fuel => .fuel
        | .err => .err
        | .panic => .panic
        | .fuel => .fuel

  /-- `segment_compound` -/
  def segCompound (L : LFormat) : Nat → Str → Res (LTerm × Nat)
    | 0, _ => .fuel
    | fuel + 1, env =>
      match strip L.compL env with
      | none => .err
      | some afterL =>
        match matchPrefix L.connecters afterL with
        | none => .err
        | some conn =>
          match segComponents L fuel L.compR env (L.compL.length + conn.length) [] with
          | .ok (ts, border) => .ok (.compound conn (LTerms.ofList ts), border)
          | .err => .err
          | .panic => .panic
          | .fuel => .fuel

  /-- `segment_statement` -/
  def segStatement (L : LFormat) : Nat → Str → Res (LTerm × Nat)
    | 0, _ => .fuel
    | fuel + 1, env =>
      match strip L.stmtL env with
      | none => .err
      | some afterL =>
        match segTerm L fuel afterL with
        | .ok (subj, n1) =>
          let cs := L.stmtL.length + n1
          match sliceFrom env cs with
          | .ok s1 =>
            match matchPrefix L.copulas s1 with
            | none => .err
            | some cop =>
              let ps := cs + cop.length
              match sliceFrom env ps with
              | .ok s2 =>
                match segTerm L fuel s2 with
                | .ok (pred, n2) =>
                  let rbs := ps + n2
                  match sliceFrom env rbs with
                  | .ok s3 =>
                    if isPre L.stmtR s3 then .ok (.stmt cop subj pred, rbs + L.stmtR.length) else .err
                  | .err => .err
                  | .panic => .panic
                  | .fuel => .fuel
                | .err => .err
                | .panic => .panic
                | .fuel => .fuel
              | .err => .err
              | .panic => .panic
              | .fuel => .fuel
          | .err => .err
          | .panic => .panic
          | .fuel => .fuel
        | .err => .err
        | .panic => .panic
        | .fuel => .fuel
end

def lexFuel (env : Str) : Nat := 4 * env.length + 8

structure LMid where
  budget : Option (List Str)
  term : Option LTerm
  punct : Option Str
  stamp : Option Str
  truth : Option (List Str)
  deriving Repr, DecidableEq

/-- `parse_items` -/
def parseItems (L : LFormat) (env : Str) : Res LMid :=
  let budget := L.segBudget env
  let begin_ := (budget.map (·.2)).getD 0
  match L.segTruth env with
  | .ok truth =>
    let rb1 := (truth.map (·.2)).getD env.length
    match slice env 0 rb1 with
    | .ok e1 =>
      match L.segStamp e1 with
      | .ok stamp =>
        let rb2 := (stamp.map (·.2)).getD rb1
        match slice env 0 rb2 with
        | .ok e2 =>
          let punct := L.segPunct e2
          let rb3 := (punct.map (·.2)).getD rb2
          -- `&env[begin_index..right_border]`
          match slice env begin_ rb3 with
          | .ok et =>
            if begin_ < rb3 then
              match L.segTerm (lexFuel et) et with
              | .ok (t, _) =>
                .ok { budget := budget.map (·.1), term := some t, punct := punct.map (·.1),
                      stamp := stamp.map (·.1), truth := truth.map (·.1) }
              | .err => .err
              | .panic => .panic
              | .fuel => .fuel
            else
              .ok { budget := budget.map (·.1), term := none, punct := punct.map (·.1),
                    stamp := stamp.map (·.1), truth := truth.map (·.1) }
          | .err => .err
          | .panic => .panic
          | .fuel => .fuel
        | .err => .err
        | .panic => .panic
        | .fuel => .fuel
      | .err => .err
      | .panic => .panic
      | .fuel => .fuel
    | .err => .err
    | .panic => .panic
    | .fuel => .fuel
  | .err => .err
  | .panic => .panic
  | .fuel => .fuel

/-- `MidParseResult::fold` -/
def LMid.fold (m : LMid) : Option LNarsese :=
  match m.term with
  | none => none
  | some t =>
    match m.punct with
    | some p =>
      let s : LSentence := { term := t, punct := p, stamp := m.stamp.getD [], truth := m.truth.getD [] }
      match m.budget with
      | some b => some (.task { budget := b, sentence := s })
      | none => some (.sentence s)
    | none => some (.term t)

/-- `impl_lexical::parse` -/
def lparse (L : LFormat) (input : Str) : Res LNarsese :=
  match L.parseItems (L.idealize input) with
  | .ok m => Res.ofOption m.fold
  | .err => .err
  | .panic => .panic
  | .fuel => .fuel

/-- `impl_lexical::parse_term` -/
def lparseTerm (L : LFormat) (input : Str) : Res LTerm :=
  let env := L.idealize input
  (L.segTerm (lexFuel env) env).map (·.1)

end LFormat
end Narsese
