/-
  Equality and hashing of enum terms (model of `impl PartialEq for Term` / `impl Hash for Term`
  in `src/enum_narsese/term/impls.rs`), and the reference semantic equality `sem`.
-/
import NarseseModel.Term
set_option autoImplicit false

namespace Narsese

/-! ## Reference: semantic equality (what C06 says `==` must be) -/

mutual
  /-- semantic equality; recursion is structural on the FIRST argument -/
  def sem : Term → Term → Bool
    | .atom k n, .atom k' n' => k == k' && n == n'
    | .placeholder, .placeholder => true
    | .interval n, .interval m => n == m
    | .setlike k as, .setlike k' bs =>
        k == k' && (subL as bs.toList && bs.toList.all (fun b => anyL as b))
    | .seqlike k as, .seqlike k' bs => k == k' && zipL as bs.toList
    | .image k i as, .image k' j bs => k == k' && (i == j && zipL as bs.toList)
    | .neg a, .neg b => sem a b
    | .bin k a b, .bin k' c d =>
        k == k' && (if k.symmetric then (sem a c && sem b d) || (sem a d && sem b c)
                    else sem a c && sem b d)
    | _, _ => false
  /-- every element of `as` has a sem-equal partner in `bs` -/
  def subL : Terms → List Term → Bool
    | .nil, _ => true
    | .cons a as, bs => bs.any (fun b => sem a b) && subL as bs
  /-- some element of `as` is sem-equal to `b` -/
  def anyL : Terms → Term → Bool
    | .nil, _ => false
    | .cons a as, b => sem a b || anyL as b
  /-- pointwise, same length -/
  def zipL : Terms → List Term → Bool
    | .nil, [] => true
    | .cons a as, b :: bs => sem a b && zipL as bs
    | _, _ => false
end

/-! ## Model of `impl Hash for Term` (after the D1 repair)

`feed h0 t` is the sequence of `Hasher::write_*` calls `t.hash(state)` performs.
`h0` is the fixed-key `DefaultHasher` applied to an element's own feed. -/

inductive Tok where
  | str (s : Str)        -- `str::hash`: bytes followed by 0xff
  | usize (n : Nat)      -- `write_usize`
  | u64 (n : Nat)        -- `write_u64`
  deriving DecidableEq, Repr, Inhabited

def wrapAdd (a b : Nat) : Nat := (a + b) % 2 ^ 64

mutual
  def feed (h0 : List Tok → Nat) : Term → List Tok
    | .atom _ n => [.str n]
    | .placeholder => [.str ['_']]
    | .interval n => [.usize n]
    | .setlike _ ts => [.usize ts.length, .u64 (feedSum h0 ts)]
    | .seqlike _ ts => feedCat h0 ts
    | .image _ i ts => .usize i :: feedCat h0 ts
    | .neg t => feed h0 t
    | .bin k a b =>
        if k.symmetric then [.usize 2, .u64 (wrapAdd (h0 (feed h0 a)) (wrapAdd (h0 (feed h0 b)) 0))]
        else feed h0 a ++ feed h0 b
  /-- order-independent combination: wrapping sum of the elements' own hashes -/
  def feedSum (h0 : List Tok → Nat) : Terms → Nat
    | .nil => 0
    | .cons t ts => wrapAdd (h0 (feed h0 t)) (feedSum h0 ts)
  def feedCat (h0 : List Tok → Nat) : Terms → List Tok
    | .nil => []
    | .cons t ts => feed h0 t ++ feedCat h0 ts
end

/-! ## Model of `impl PartialEq for Term`

`HashSet == HashSet` is `len₁ = len₂ ∧ ∀ x ∈ s₁, s₂.contains(x)`; `contains` finds an element only
if its hash agrees (`feed` equal under every hasher is modelled as equal feeds) *and* `==` holds. -/

mutual
  def eqImpl (h0 : List Tok → Nat) : Term → Term → Bool
    | .atom k n, .atom k' n' => k == k' && n == n'
    | .placeholder, .placeholder => true
    | .interval n, .interval m => n == m
    | .setlike k as, .setlike k' bs =>
        k == k' && (as.length == bs.length && allFound h0 as bs.toList)
    | .seqlike k as, .seqlike k' bs => k == k' && eqZip h0 as bs.toList
    | .image k i as, .image k' j bs => k == k' && (i == j && eqZip h0 as bs.toList)
    | .neg a, .neg b => eqImpl h0 a b
    | .bin k a b, .bin k' c d =>
        k == k' && (if k.symmetric then (eqImpl h0 a c && eqImpl h0 b d) || (eqImpl h0 a d && eqImpl h0 b c)
                    else eqImpl h0 a c && eqImpl h0 b d)
    | _, _ => false
  /-- every element of `as` is found in the hash set `bs` -/
  def allFound (h0 : List Tok → Nat) : Terms → List Term → Bool
    | .nil, _ => true
    | .cons a as, bs =>
        bs.any (fun b => decide (feed h0 a = feed h0 b) && eqImpl h0 a b) && allFound h0 as bs
  def eqZip (h0 : List Tok → Nat) : Terms → List Term → Bool
    | .nil, [] => true
    | .cons a as, b :: bs => eqImpl h0 a b && eqZip h0 as bs
    | _, _ => false
end

/-- `HashSet::contains` -/
def lookupSet (h0 : List Tok → Nat) (s : List Term) (x : Term) : Bool :=
  s.any (fun y => decide (feed h0 y = feed h0 x) && eqImpl h0 y x)

/-- `HashSet::insert` (iteration order of the model: insertion order) -/
def insertSet (h0 : List Tok → Nat) (s : List Term) (x : Term) : List Term :=
  if lookupSet h0 s x then s else s ++ [x]

/-- `from_term_settable_to_term_set` / `HashSet::extend` -/
def extendSet (h0 : List Tok → Nat) (s : List Term) (xs : List Term) : List Term :=
  xs.foldl (insertSet h0) s

def mkSet (h0 : List Tok → Nat) (xs : List Term) : List Term := extendSet h0 [] xs

end Narsese
