/-
  Enum Narsese parser (model of `impl_enum/parser.rs`).

  The Rust parser is a cursor (`env: Vec<char>`, `head`) whose head may legally run PAST the end of
  the input after an unchecked `head_skip(right_bracket)`. The model keeps the unread suffix `rest`,
  the overrun `over` (= head - len when head > len) and `len`, so `head = len - |rest| + over`.

  Every Rust operation that can panic is modelled with its guard and yields `panic` when the guard
  fails; loops and recursion take fuel.
-/
import NarseseModel.EFormat
import NarseseModel.Value
set_option autoImplicit false

namespace Narsese

structure Cur where
  rest : Str
  over : Nat
  len : Nat
  deriving Repr, Inhabited, DecidableEq

/-- parser outcome; an error remembers the cursor at which it was raised (the Rust parser leaves
`head` there: later alternatives of `first_method_ok!` evaluate their guards at that position, and
a later error message slices its context window around it). -/
inductive PRes (α : Type) where
  | ok (a : α)
  | err (at_ : Cur)
  | panic
  | fuel
  deriving Repr, Inhabited

namespace PRes
variable {α β : Type}
@[inline] def bind (x : PRes α) (f : α → PRes β) : PRes β :=
  match x with
  | .ok a => f a
  | .err h => .err h
  | .panic => .panic
  | .fuel => .fuel
instance : Monad PRes where
  pure := .ok
  bind := PRes.bind
def toRes : PRes α → Res α
  | .ok a => .ok a
  | .err _ => .err
  | .panic => .panic
  | .fuel => .fuel
end PRes

namespace Cur

def ofEnv (env : Str) : Cur := { rest := env, over := 0, len := env.length }

def head (c : Cur) : Nat := c.len - c.rest.length + c.over

/-- `can_consume`: `head < len_env` -/
def canConsume (c : Cur) : Bool := !c.rest.isEmpty

/-- `starts_with`: false whenever `len_env < head + |k|`; in particular false for `k = ""` once the
head has overrun the input. -/
def startsWith (c : Cur) (k : Str) : Bool := c.over == 0 && isPre k c.rest

/-- `head_step(n)`: unchecked -/
def skipN (c : Cur) (n : Nat) : Cur :=
  if n ≤ c.rest.length then { c with rest := c.rest.drop n }
  else { c with rest := [], over := c.over + (n - c.rest.length) }

/-- `head_skip(s)` -/
def skip (c : Cur) (k : Str) : Cur := c.skipN k.length

end Cur

/-- `ParseError::generate_env_slice` (after the D3 repair): the slice `env[left..right]` must satisfy
`left ≤ right ≤ len`, otherwise Rust panics. -/
def windowOk (len head : Nat) : Bool :=
  let left := if head > 4 then min (head - 4) len else 0
  let right := if head + 4 + 1 < len then head + 4 + 1 else len
  left ≤ right && right ≤ len

/-- `self.err(..)` / `self.parse_error(..)`: builds the error (which slices the window) -/
def raise {α : Type} (c : Cur) : PRes α := if windowOk c.len c.head then .err c else .panic


structure Mid where
  budget : Option Budget := none
  term : Option Term := none
  punct : Option Punct := none
  stamp : Option Stamp := none
  truth : Option Truth := none
  deriving Repr, Inhabited, DecidableEq

namespace EFormat

/-- `head_skip_spaces`: `while starts_with(space) { head_skip(space) }`.
(With an empty `space.parse` Rust would loop forever; the model stops when its fuel `|rest|` is used
up. All statements about the parser assume `spaceParse ≠ []`.) -/
def skipSpAux (sp : Str) : Nat → Str → Str
  | 0, s => s
  | n + 1, s =>
    match strip sp s with
    | some r => skipSpAux sp n r
    | none => s

def skipSpaces (F : EFormat) (c : Cur) : Cur :=
  if c.over == 0 then { c with rest := skipSpAux F.spaceParse c.rest.length c.rest } else c

/-- `head_skip_and_spaces` -/
def skipAndSpaces (F : EFormat) (c : Cur) (k : Str) : Cur := F.skipSpaces (c.skip k)
/-- `head_skip_after_spaces` -/
def skipAfterSpaces (F : EFormat) (c : Cur) (k : Str) : Cur := (F.skipSpaces c).skip k

/-- `is_copula_starts_at_head` (after the D5 repair: the whole copula must be present) -/
def copulaAt (F : EFormat) (s : Str) : Bool := F.copulas.any (fun k => isPre k s)

/-- name scanning loop of `parse_atom` -/
def scanName (F : EFormat) : Str → Str × Str
  | [] => ([], [])
  | c :: cs =>
    if F.copulaAt (c :: cs) then ([], c :: cs)
    else if F.isName c then
      let r := scanName F cs
      (c :: r.1, r.2)
    else ([], c :: cs)

/-- atom prefixes in the order `parse_atom` tries them -/
def atomPrefixes (F : EFormat) : List (Str × Option AtomK × Bool) :=
  -- (keyword, named kind | none, isInterval)
  [ (F.prePlaceholder, none, false),
    (F.preIVar, some .ivar, false),
    (F.preDVar, some .dvar, false),
    (F.preQVar, some .qvar, false),
    (F.preInterval, none, true),
    (F.preOperator, some .op, false),
    (F.preWord, some .word, false) ]

inductive AtomHead where
  | placeholder | interval | named (k : AtomK)
  deriving Repr, DecidableEq

def atomHeads (F : EFormat) : List (Str × AtomHead) :=
  [ (F.prePlaceholder, .placeholder),
    (F.preIVar, .named .ivar),
    (F.preDVar, .named .dvar),
    (F.preQVar, .named .qvar),
    (F.preInterval, .interval),
    (F.preOperator, .named .op),
    (F.preWord, .named .word) ]

/-- `parse_atom` -/
def parseAtom (F : EFormat) (c : Cur) : PRes (Term × Cur) :=
  match (F.atomHeads.find? (fun p => c.startsWith p.1)) with
  | none => raise c
  | some (pre, hd) =>
    let c1 := c.skip pre
    let (name, rest') := F.scanName c1.rest
    let c2 : Cur := { c1 with rest := rest' }
    match hd with
    | .placeholder => .ok (.placeholder, c2)
    | .interval =>
      if name.isEmpty then raise c2
      else match parseUsize name with
        | some n => .ok (.interval n, c2)
        | none => raise c2
    | .named k =>
      if name.isEmpty then raise c2 else .ok (.atom k name, c2)

/-- what a compound connecter builds -/
inductive ConnK where
  | operatorUnsupported
  | set (k : SetK)
  | seq (k : SeqK)
  | img (k : ImgK)
  | neg
  | diff (k : BinK)
  deriving Repr, DecidableEq

/-- connecters in the order `parse_compound` tries them -/
def connecters (F : EFormat) : List (Str × ConnK) :=
  [ (F.preOperator, .operatorUnsupported),
    (F.cConj, .set .conj),
    (F.cDisj, .set .disj),
    (F.cNeg, .neg),
    (F.cSeqConj, .seq .seqConj),
    (F.cParConj, .set .parConj),
    (F.cExtInt, .set .extInt),
    (F.cIntInt, .set .intInt),
    (F.cExtDiff, .diff .extDiff),
    (F.cIntDiff, .diff .intDiff),
    (F.cProduct, .seq .product),
    (F.cExtImg, .img .ext),
    (F.cIntImg, .img .int) ]

/-- what a copula builds -/
inductive CopK where
  | plain (k : BinK)
  | instance_ | property | instProp | equivRetro
  deriving Repr, DecidableEq

/-- copulas in the order `parse_statement` tries them -/
def copulaTable (F : EFormat) : List (Str × CopK) :=
  [ (F.copInh, .plain .inh),
    (F.copSim, .plain .sim),
    (F.copImpl, .plain .impl),
    (F.copEquiv, .plain .equiv),
    (F.copInstance, .instance_),
    (F.copProperty, .property),
    (F.copInstProp, .instProp),
    (F.copImplPred, .plain .implPred),
    (F.copImplConc, .plain .implConc),
    (F.copImplRetro, .plain .implRetro),
    (F.copEquivPred, .plain .equivPred),
    (F.copEquivConc, .plain .equivConc),
    (F.copEquivRetro, .equivRetro) ]

end EFormat

/-- de-duplication as a `HashSet` built by sequential insertion performs it
(by semantic equality; equal to the hash-based lookup of the code by `Proofs/Sem`) -/
def dedupSem : List Term → List Term → List Term
  | acc, [] => acc
  | acc, x :: xs => if acc.any (fun y => sem y x) then dedupSem acc xs else dedupSem (acc ++ [x]) xs

def mkSetSem (xs : List Term) : List Term := dedupSem [] xs

/-- derived constructors (`Term::new_instance` etc.) -/
def EFormat.CopK.build : EFormat.CopK → Term → Term → Term
  | .plain k, s, p => .bin k s p
  | .instance_, s, p => .bin .inh (.setlike .extSet (.cons s .nil)) p
  | .property, s, p => .bin .inh s (.setlike .intSet (.cons p .nil))
  | .instProp, s, p => .bin .inh (.setlike .extSet (.cons s .nil)) (.setlike .intSet (.cons p .nil))
  | .equivRetro, s, p => .bin .equivPred p s

/-- `terms.iter().position(|t| *t == Placeholder)` then `remove` -/
def extractPlaceholder : List Term → Option (Nat × List Term)
  | [] => none
  | t :: ts =>
    if t = .placeholder then some (0, ts)
    else (extractPlaceholder ts).map (fun p => (p.1 + 1, t :: p.2))

namespace EFormat

/-- the kind-specific tail of `parse_compound`: fill the components into the pre-built term (arity
checks for negation and the differences, placeholder extraction for images), then skip the closer -/
def finishCompound (F : EFormat) (ck : ConnK) (ts : List Term) (c3 : Cur) : PRes (Term × Cur) :=
  let fin (t : Term) : PRes (Term × Cur) := .ok (t, F.skipAfterSpaces c3 F.compR)
  match ck with
  | .neg =>
    match ts with
    | [t] => fin (.neg t)
    | _ => raise c3
  | .diff k =>
    match ts with
    | [a, b] => fin (.bin k a b)
    | _ => raise c3
  | .img k =>
    match extractPlaceholder ts with
    | some (i, ts') => fin (.image k i (Terms.ofList ts'))
    | none => raise c3
  | .seq k => fin (.seqlike k (Terms.ofList ts))
  | .set k => fin (.setlike k (Terms.ofList (mkSetSem ts)))
  | .operatorUnsupported => raise c3

mutual
  /-- `parse_term` -/
  def parseTerm (F : EFormat) : Nat → Cur → PRes (Term × Cur)
    | 0, _ => .fuel
    | fuel + 1, c =>
      if c.startsWith F.extSetL then
        parseTermSet F fuel .extSet F.extSetL F.extSetR c
      else if c.startsWith F.intSetL then
        parseTermSet F fuel .intSet F.intSetL F.intSetR c
      else if c.startsWith F.compL then
        parseCompound F fuel c
      else if c.startsWith F.stmtL then
        parseStatement F fuel c
      else F.parseAtom c

  /-- `parse_compound_terms`: loop until the right bracket or the end of input -/
  def parseTerms (F : EFormat) : Nat → Str → Cur → List Term → PRes (List Term × Cur)
    | 0, _, _, _ => .fuel
    | fuel + 1, rb, c, acc =>
      if !c.canConsume then .ok (acc, c)
      else if c.startsWith F.spaceParse then parseTerms F fuel rb (c.skip F.spaceParse) acc
      else if c.startsWith F.separator then parseTerms F fuel rb (c.skip F.separator) acc
      else if c.startsWith rb then .ok (acc, c)
      else
        match parseTerm F fuel c with
        | .ok (t, c') => parseTerms F fuel rb c' (acc ++ [t])
        | .err h => .err h
        | .panic => .panic
        | .fuel => .fuel

  /-- `parse_term_set` + `parse_compound_set_*` -/
  def parseTermSet (F : EFormat) : Nat → SetK → Str → Str → Cur → PRes (Term × Cur)
    | 0, _, _, _, _ => .fuel
    | fuel + 1, k, lb, rb, c =>
      match parseTerms F fuel rb (F.skipAndSpaces c lb) [] with
      | .ok (ts, c') =>
        let c'' := F.skipAfterSpaces c' rb
        if ts.isEmpty then raise c''
        else .ok (.setlike k (Terms.ofList (mkSetSem ts)), c'')
      | .err h => .err h
      | .panic => .panic
      | .fuel => .fuel

  /-- `parse_compound` -/
  def parseCompound (F : EFormat) : Nat → Cur → PRes (Term × Cur)
    | 0, _ => .fuel
    | fuel + 1, c =>
      let c1 := F.skipAndSpaces c F.compL
      match F.connecters.find? (fun p => c1.startsWith p.1) with
      | none => raise c1
      | some (kw, ck) =>
        let c2 := c1.skip kw
        if ck = .operatorUnsupported then raise c2
        else
          match parseTerms F fuel F.compR c2 [] with
          | .ok (ts, c3) =>
            if ts.isEmpty then raise c3 else finishCompound F ck ts c3
          | .err h => .err h
          | .panic => .panic
          | .fuel => .fuel

  /-- `parse_statement` -/
  def parseStatement (F : EFormat) : Nat → Cur → PRes (Term × Cur)
    | 0, _ => .fuel
    | fuel + 1, c =>
      match parseTerm F fuel (F.skipAndSpaces c F.stmtL) with
      | .ok (subj, c1) =>
        let c2 := F.skipSpaces c1
        match F.copulaTable.find? (fun p => c2.startsWith p.1) with
        | none => raise c2
        | some (kw, ck) =>
          match parseTerm F fuel (F.skipSpaces (c2.skip kw)) with
          | .ok (pred, c3) => .ok (ck.build subj pred, F.skipAfterSpaces c3 F.stmtR)
          | .err h => .err h
          | .panic => .panic
          | .fuel => .fuel
      | .err h => .err h
      | .panic => .panic
      | .fuel => .fuel
end

/-- one step of `parse_separated_floats`' loop state -/
structure FloatSt where
  cur : Cur
  buf : Str        -- `value_buffer`
  acc : List Num   -- `result[0..i]`
  deriving Repr

/-- `parse_separated_floats::<N>`; returns the parsed numbers (`i` of them; the remaining array slots
stay `0.0`, which is in range) and the cursor. -/
def parseFloats (F : EFormat) (N : Nat) (sep rb : Str) : Nat → Cur → Str → List Num → PRes (List Num × Cur)
  | 0, _, _, _ => .fuel
  | fuel + 1, c, buf, acc =>
    if !(c.canConsume && acc.length < N) then .ok (acc, c)
    else
      match c.rest with
      | [] => .ok (acc, c)
      | ch :: _ =>
        if c.startsWith F.spaceParse then parseFloats F N sep rb fuel (c.skip F.spaceParse) buf acc
        else if ch = '.' || isDigit ch then parseFloats F N sep rb fuel (c.skipN 1) (buf ++ [ch]) acc
        else if c.startsWith sep then
          match readNum buf with
          | some v => parseFloats F N sep rb fuel (c.skip sep) [] (acc ++ [v])
          | none => raise c
        else if c.startsWith rb then
          match readNum buf with
          | some v => .ok (acc ++ [v], c)
          | none => .ok (acc, c)
        else raise c

/-- `parse_isize`: greedy over `[0-9+-]` -/
def spanSigned : Str → Str × Str
  | [] => ([], [])
  | c :: cs =>
    if isDigit c || c = '+' || c = '-' then let p := spanSigned cs; (c :: p.1, p.2) else ([], c :: cs)

def parseIsizeAt (c : Cur) : PRes (Int × Cur) :=
  let (buf, rest') := spanSigned c.rest
  let c' : Cur := { c with rest := rest' }
  if buf.isEmpty then raise c'
  else match parseIsize buf with
    | some v => .ok (v, c')
    | none => raise c'

/-- `consume_stamp` -/
def consumeStamp (F : EFormat) (c : Cur) : PRes (Stamp × Cur) :=
  let c1 := F.skipAndSpaces c F.stampL
  let fin (s : Stamp) (c : Cur) : PRes (Stamp × Cur) := .ok (s, F.skipAfterSpaces c F.stampR)
  if c1.startsWith F.stampFixed then
    match parseIsizeAt (F.skipAndSpaces c1 F.stampFixed) with
    | .ok (t, c2) => fin (.fixed t) c2
    | .err h => .err h
    | .panic => .panic
    | .fuel => .fuel
  else if c1.startsWith F.stampPast then fin .past (c1.skip F.stampPast)
  else if c1.startsWith F.stampPresent then fin .present (c1.skip F.stampPresent)
  else if c1.startsWith F.stampFuture then fin .future (c1.skip F.stampFuture)
  else raise c1

/-- panicking constructors after the explicit range check (`Truth::new_single` etc. call `validate_01`) -/
def liftRes {α : Type} (c : Cur) : Res α → PRes α
  | .ok a => .ok a
  | .err => raise c
  | .panic => .panic
  | .fuel => .fuel

/-- `consume_truth` -/
def consumeTruth (F : EFormat) (c : Cur) : PRes (Truth × Cur) :=
  let c1 := F.skipAndSpaces c F.truthL
  match parseFloats F 2 F.truthSep F.truthR (c1.rest.length + 1) c1 [] [] with
  | .ok (xs, c2) =>
    if !(xs.all Num.in01) then raise c2
    else
      let built : Res Truth := match xs with
        | [] => .ok .empty
        | [f] => (GTruth.newSingle Num.in01 f).map Truth.ofG
        | f :: cc :: _ => (GTruth.newDouble Num.in01 f cc).map Truth.ofG
      match liftRes c2 built with
      | .ok t => .ok (t, F.skipAfterSpaces c2 F.truthR)
      | .err h => .err h
      | .panic => .panic
      | .fuel => .fuel
  | .err h => .err h
  | .panic => .panic
  | .fuel => .fuel

/-- `consume_budget` -/
def consumeBudget (F : EFormat) (c : Cur) : PRes (Budget × Cur) :=
  let c1 := F.skipAndSpaces c F.budgetL
  match parseFloats F 3 F.budgetSep F.budgetR (c1.rest.length + 1) c1 [] [] with
  | .ok (xs, c2) =>
    if !(xs.all Num.in01) then raise c2
    else
      let built : Res Budget := match xs with
        | [] => .ok .empty
        | [p] => (GBudget.newSingle Num.in01 p).map Budget.ofG
        | [p, d] => (GBudget.newDouble Num.in01 p d).map Budget.ofG
        | p :: d :: q :: _ => (GBudget.newTriple Num.in01 p d q).map Budget.ofG
      match liftRes c2 built with
      | .ok b => .ok (b, F.skipAfterSpaces c2 F.budgetR)
      | .err h => .err h
      | .panic => .panic
      | .fuel => .fuel
  | .err h => .err h
  | .panic => .panic
  | .fuel => .fuel

/-- `consume_punctuation` -/
def consumePunct (F : EFormat) (c : Cur) : PRes (Punct × Cur) :=
  if c.startsWith F.pJudgement then .ok (.judgement, c.skip F.pJudgement)
  else if c.startsWith F.pGoal then .ok (.goal, c.skip F.pGoal)
  else if c.startsWith F.pQuestion then .ok (.question, c.skip F.pQuestion)
  else if c.startsWith F.pQuest then .ok (.quest, c.skip F.pQuest)
  else raise c

/-- fuel for the term parser on a cursor -/
def termFuel (c : Cur) : Nat := 4 * c.rest.length + 8

/-- One alternative of `first_method_ok!` failed: continue with the cursor it left behind. -/
def orElse {α : Type} (x : PRes α) (k : Cur → PRes α) : PRes α :=
  match x with
  | .ok a => .ok a
  | .err h => k h
  | .panic => .panic
  | .fuel => .fuel

/-- an alternative: its guard is evaluated at the CURRENT head (`now`, wherever the previous failed
alternative left it), then the head is moved back to `c` and the branch runs from there. -/
def alt {α : Type} (guard : Cur → Bool) (run : PRes α) (k : Cur → PRes α) (now : Cur) : PRes α :=
  if guard now then orElse run k else k now

/-- store a consumed item in its slot -/
def liftStep {α : Type} (r : PRes (α × Cur)) (f : α → Mid) : PRes (Cur × Mid) :=
  match r with
  | .ok (a, c') => .ok (c', f a)
  | .err h => .err h
  | .panic => .panic
  | .fuel => .fuel

/-- `consume_one`: ordered alternatives with back-off. -/
def consumeOne (F : EFormat) (c : Cur) (m : Mid) : PRes (Cur × Mid) :=
  if c.startsWith F.spaceParse then .ok (c.skip F.spaceParse, m)
  else
    let rBudget := liftStep (F.consumeBudget c) (fun b => { m with budget := some b })
    let rTerm := liftStep (F.parseTerm (termFuel c) c) (fun t => { m with term := some t })
    let rPunct := liftStep (F.consumePunct c) (fun p => { m with punct := some p })
    let rStamp := liftStep (F.consumeStamp c) (fun s => { m with stamp := some s })
    let rTruth := liftStep (F.consumeTruth c) (fun t => { m with truth := some t })
    alt (fun now => now.startsWith F.budgetL && m.budget.isNone) rBudget
      (alt (fun _ => m.term.isNone) rTerm
        (alt (fun _ => m.punct.isNone) rPunct
          (alt (fun now => now.startsWith F.stampL && m.stamp.isNone) rStamp
            (alt (fun now => now.startsWith F.truthL && m.truth.isNone) rTruth
              (fun now => raise now))))) c

/-- `build_mid_result` -/
def buildMid (F : EFormat) : Nat → Cur → Mid → PRes (Cur × Mid)
  | 0, _, _ => .fuel
  | fuel + 1, c, m =>
    if !c.canConsume then .ok (c, m)
    else
      let c1 := F.skipSpaces c
      if !c1.canConsume then .ok (c1, m)
      else
        match F.consumeOne c1 m with
        | .ok (c2, m2) => buildMid F fuel c2 m2
        | .err h => .err h
        | .panic => .panic
        | .fuel => .fuel

/-- `Option::unwrap` -/
def unwrapOpt {α : Type} : Option α → PRes α
  | some a => .ok a
  | none => .panic

/-- `transform_mid_result` (with `form_term` / `form_sentence` / `form_task`); also returns the
residue left in the state's `mid_result` (the slots are `take`n only on the path that uses them). -/
def transformMid (c : Cur) (m : Mid) : PRes (Narsese × Mid) :=
  match m.term with
  | none => raise c
  | some t =>
    match m.punct with
    | some p =>
      let s := Sentence.fromPunctuation t p (m.stamp.getD .eternal) (m.truth.getD .empty)
      match m.budget with
      | some b => .ok (.task { sentence := s, budget := b }, {})
      | none => .ok (.sentence s, {})
    | none => .ok (.term t, { m with term := none })

/-- the parser state that `parse_multi` re-uses -/
structure PState where
  cur : Cur
  mid : Mid
  deriving Repr, Inhabited

/-- `ParseState::reset_to` (after the D2 repair: the mid result is cleared as well) -/
def resetTo (_s : PState) (input : Str) : PState := { cur := Cur.ofEnv input, mid := {} }

def midFuel (c : Cur) : Nat := c.rest.length + 2

/-- `ParseResult::from_parse((), &mut state)`: run on the state as it is -/
def runState (F : EFormat) (s : PState) : PRes Narsese × PState :=
  match F.buildMid (midFuel s.cur) s.cur s.mid with
  | .ok (c, m) =>
    match transformMid c m with
    | .ok (v, m') => (.ok v, { cur := c, mid := m' })
    | .err h => (.err h, { cur := c, mid := m })
    | .panic => (.panic, { cur := c, mid := m })
    | .fuel => (.fuel, { cur := c, mid := m })
  -- on an error the Rust state keeps whatever was filled so far; the model keeps the start state's
  -- slots *plus* nothing else observable: `reset_to` clears them before the next use.
  | .err h => (.err h, s)
  | .panic => (.panic, s)
  | .fuel => (.fuel, s)

/-- `NarseseFormat::parse::<Narsese>` / `parse_chars` -/
def eparse (F : EFormat) (input : Str) : Res Narsese :=
  (F.runState { cur := Cur.ofEnv input, mid := {} }).1.toRes

/-- `NarseseFormat::parse_multi` -/
def parseMultiAux (F : EFormat) : PState → List Str → List (Res Narsese)
  | _, [] => []
  | s, i :: is =>
    let r := F.runState (resetTo s i)
    r.1.toRes :: parseMultiAux F r.2 is

def parseMulti (F : EFormat) (inputs : List Str) : List (Res Narsese) :=
  F.parseMultiAux { cur := Cur.ofEnv [], mid := {} } inputs

/-! ### side doors (`parse::<Truth|Budget|Stamp|Punctuation>`) -/

/-- the `ok_or(parser.parse_error(..))` after a successful consume builds the error eagerly -/
def eagerErr {α : Type} (c : Cur) (a : α) : PRes α := if windowOk c.len c.head then .ok a else .panic

def parseTruthDoor (F : EFormat) (input : Str) : Res Truth :=
  (match F.consumeTruth (Cur.ofEnv input) with
   | .ok (t, c) => eagerErr c t
   | .err h => .err h | .panic => .panic | .fuel => .fuel : PRes Truth).toRes

def parseBudgetDoor (F : EFormat) (input : Str) : Res Budget :=
  (match F.consumeBudget (Cur.ofEnv input) with
   | .ok (t, c) => eagerErr c t
   | .err h => .err h | .panic => .panic | .fuel => .fuel : PRes Budget).toRes

def parseStampDoor (F : EFormat) (input : Str) : Res Stamp :=
  if input.isEmpty then .ok .eternal else
  (match F.consumeStamp (Cur.ofEnv input) with
   | .ok (t, c) => eagerErr c t
   | .err h => .err h | .panic => .panic | .fuel => .fuel : PRes Stamp).toRes

def parsePunctDoor (F : EFormat) (input : Str) : Res Punct :=
  (match F.consumePunct (Cur.ofEnv input) with
   | .ok (t, c) => eagerErr c t
   | .err h => .err h | .panic => .panic | .fuel => .fuel : PRes Punct).toRes

end EFormat
end Narsese
