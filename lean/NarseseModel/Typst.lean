/-
  Typst rendering of enum Narsese (model of `typst_formatter/formatter_enum.rs` + `definition.rs`).
  The markup constants, the `char::is_whitespace` table and the `str` `Debug` escaping classes are
  GENERATED from the compiled crate (`Gen/Typst.lean`).
-/
import NarseseModel.Api
set_option autoImplicit false

namespace Narsese

structure TypstConsts where
  isWsTbl : List (Nat × Nat)           -- `char::is_whitespace`
  dbgIdentTbl : List (Nat × Nat)       -- chars that `{:?}` of a `str` prints unchanged
  dbgSpecial : List (Nat × Str)        -- chars with a short escape (`\n`, `\"`, ...)
  preWord : Str
  prePlaceholder : Str
  preIVar : Str
  preDVar : Str
  preQVar : Str
  preInterval : Str
  preOperator : Str
  brCompound : Str × Str
  brExtSet : Str × Str
  brIntSet : Str × Str
  brStatement : Str × Str
  brTruth : Str × Str
  brBudget : Str × Str
  sepCompound : Str
  sepStatement : Str
  sepItem : Str
  sepTruth : Str
  sepBudget : Str
  cExtInt : Str
  cIntInt : Str
  cExtDiff : Str
  cIntDiff : Str
  cProduct : Str
  cExtImg : Str
  cIntImg : Str
  cConj : Str
  cDisj : Str
  cNeg : Str
  cSeqConj : Str
  cParConj : Str
  copInh : Str
  copSim : Str
  copImpl : Str
  copEquiv : Str
  copImplPred : Str
  copImplConc : Str
  copImplRetro : Str
  copEquivPred : Str
  copEquivConc : Str
  stampEternal : Str
  stampPast : Str
  stampPresent : Str
  stampFuture : Str
  stampFixed : Str
  pJudgement : Str
  pGoal : Str
  pQuestion : Str
  pQuest : Str
  deriving Repr, Inhabited

namespace TypstConsts

def isWs (C : TypstConsts) (c : Char) : Bool := inRanges C.isWsTbl c

def hexDigit (n : Nat) : Char :=
  if n < 10 then Char.ofNat ('0'.toNat + n) else Char.ofNat ('a'.toNat + (n - 10))

def hexAux : Nat → Nat → Str → Str
  | 0, _, acc => acc
  | fuel + 1, n, acc =>
    if n < 16 then hexDigit n :: acc else hexAux fuel (n / 16) (hexDigit (n % 16) :: acc)

/-- lowercase hex without leading zeros -/
def hex (n : Nat) : Str := hexAux 8 n []

/-- `char::escape_debug_ext` as used by `<str as Debug>::fmt` -/
def dbgChar (C : TypstConsts) (c : Char) : Str :=
  if inRanges C.dbgIdentTbl c then [c]
  else match C.dbgSpecial.find? (fun p => p.1 = c.toNat) with
    | some (_, s) => s
    | none => ['\\', 'u', '{'] ++ hex c.toNat ++ ['}']

/-- `ToDebug::to_debug` of a name: `format!("{:?}", name)` -/
def dbg (C : TypstConsts) (s : Str) : Str := '"' :: (s.flatMap C.dbgChar ++ ['"'])

/-! ### `post_process_whitespace` -/

def dropWs (C : TypstConsts) : Str → Str
  | [] => []
  | c :: cs => if C.isWs c then dropWs C cs else c :: cs

/-- `str::trim` -/
def trim (C : TypstConsts) (s : Str) : Str := (C.dropWs (C.dropWs s).reverse).reverse

/-- drop a char when it and its predecessor are both whitespace -/
def squeeze (C : TypstConsts) : Char → Str → Str
  | _, [] => []
  | prev, c :: cs => if C.isWs prev && C.isWs c then squeeze C c cs else c :: squeeze C c cs

def post (C : TypstConsts) (s : Str) : Str :=
  match C.trim s with
  | [] => []
  | c :: cs => c :: C.squeeze c cs

/-! ### terms -/

def atomFeature (C : TypstConsts) : AtomK → Str
  | .word => C.preWord | .ivar => C.preIVar | .dvar => C.preDVar | .qvar => C.preQVar | .op => C.preOperator

def setFeature (C : TypstConsts) : SetK → Str
  | .extSet | .intSet => []
  | .extInt => C.cExtInt | .intInt => C.cIntInt | .conj => C.cConj | .disj => C.cDisj | .parConj => C.cParConj

def setBrackets (C : TypstConsts) : SetK → Str × Str
  | .extSet => C.brExtSet | .intSet => C.brIntSet | _ => C.brCompound

def binFeature (C : TypstConsts) : BinK → Str
  | .extDiff => C.cExtDiff | .intDiff => C.cIntDiff
  | .inh => C.copInh | .sim => C.copSim | .impl => C.copImpl | .equiv => C.copEquiv
  | .implPred => C.copImplPred | .implConc => C.copImplConc | .implRetro => C.copImplRetro
  | .equivPred => C.copEquivPred | .equivConc => C.copEquivConc

/-- `FormatterTypst::template_compound` -/
def tplCompound (br : Str × Str) (connecter : Str) (strings : List Str) (sep : Str) : Str :=
  br.1 ++
  (if connecter.isEmpty then joinWith sep strings
   else if strings.length = 2 then joinWith connecter strings
   else connecter ++ sep ++ joinWith sep strings) ++
  br.2

mutual
  /-- `format_term` (raw, before the final whitespace post-processing); components are rendered
  through `self.format(t)`, i.e. individually post-processed. -/
  def rawTerm (C : TypstConsts) : Term → Str
    | .atom k n => C.atomFeature k ++ C.dbg n
    | .placeholder => C.prePlaceholder ++ C.dbg []
    | .interval n => C.preInterval ++ C.dbg (showNat n)
    | .setlike k ts => tplCompound (C.setBrackets k) (C.setFeature k) (typstTerms C ts) C.sepCompound
    | .seqlike k ts =>
        tplCompound C.brCompound (match k with | .product => C.cProduct | .seqConj => C.cSeqConj)
          (typstTerms C ts) C.sepCompound
    | .image k i ts =>
        tplCompound C.brCompound (match k with | .ext => C.cExtImg | .int => C.cIntImg)
          (typstImage C i 0 ts) C.sepCompound
    | .neg t => tplCompound C.brCompound C.cNeg [C.post (rawTerm C t)] C.sepCompound
    | .bin k a b =>
        if k.isStatement then
          C.brStatement.1 ++ C.post (rawTerm C a) ++ C.sepStatement ++ C.binFeature k ++ C.sepStatement ++
            C.post (rawTerm C b) ++ C.brStatement.2
        else tplCompound C.brCompound (C.binFeature k) [C.post (rawTerm C a), C.post (rawTerm C b)] C.sepCompound
  def typstTerms (C : TypstConsts) : Terms → List Str
    | .nil => []
    | .cons t ts => C.post (rawTerm C t) :: typstTerms C ts
  def typstImage (C : TypstConsts) (idx : Nat) : Nat → Terms → List Str
    | now, .nil => if now = idx then [C.post (C.prePlaceholder ++ C.dbg [])] else []
    | now, .cons t ts =>
      if now = idx then C.post (C.prePlaceholder ++ C.dbg []) :: C.post (rawTerm C t) :: typstImage C idx (now + 2) ts
      else C.post (rawTerm C t) :: typstImage C idx (now + 1) ts
end

def typstTerm (C : TypstConsts) (t : Term) : Str := C.post (C.rawTerm t)

def rawPunct (C : TypstConsts) : Punct → Str
  | .judgement => C.pJudgement | .goal => C.pGoal | .question => C.pQuestion | .quest => C.pQuest

def rawStamp (C : TypstConsts) : Stamp → Str
  | .eternal => C.stampEternal
  | .past => C.stampPast
  | .present => C.stampPresent
  | .future => C.stampFuture
  | .fixed t => C.stampFixed ++ showInt t

def rawFloats (br : Str × Str) (sep : Str) (xs : List Num) : Str :=
  br.1 ++ joinWith sep (xs.map (·.text)) ++ br.2

def rawTruth (C : TypstConsts) : Truth → Str
  | .empty => []
  | t => rawFloats C.brTruth C.sepTruth t.components

def rawBudget (C : TypstConsts) (b : Budget) : Str := rawFloats C.brBudget C.sepBudget b.components

def typstPunct (C : TypstConsts) (p : Punct) : Str := C.post (C.rawPunct p)
def typstStamp (C : TypstConsts) (s : Stamp) : Str := C.post (C.rawStamp s)
def typstTruth (C : TypstConsts) (t : Truth) : Str := C.post (C.rawTruth t)
def typstBudget (C : TypstConsts) (b : Budget) : Str := C.post (C.rawBudget b)

def typstSentence (C : TypstConsts) (s : Sentence) : Str :=
  C.post (C.rawTerm s.term ++ C.rawPunct s.punct ++ C.rawStamp s.stamp ++ C.sepItem ++ C.rawTruth s.truthOrEmpty)

def typstTask (C : TypstConsts) (k : Task) : Str :=
  let s := k.sentence
  C.post (C.rawBudget k.budget ++ C.sepItem ++ C.rawTerm s.term ++ C.rawPunct s.punct ++ C.sepItem ++
    C.rawStamp s.stamp ++ C.sepItem ++ C.rawTruth s.truthOrEmpty)

end TypstConsts
end Narsese
