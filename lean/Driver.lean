import Driver.Codec
import Driver.Main
