import Proofs.FoldLemmas
import Proofs.SemLemmas
import Proofs.EqHash
import Proofs.SetBuild
import Proofs.NumLemmas
import Proofs.EParseTotal
import Proofs.EParseWF
import Proofs.RT.Final
