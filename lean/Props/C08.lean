/-
  C08 — parsing depends only on format and input, not on earlier parses.

  The enum parser is modelled as a state machine (`PState = cursor + five optional slots`) that
  `parse_multi` re-targets at each input with `reset_to`. The theorem is a refinement statement:
  the batch entry point equals mapping the single-input entry point, whatever came before.
-/
import NarseseModel.EParser
import NarseseModel.Lex
set_option autoImplicit false

namespace Narsese.Props.C08
open Narsese EFormat

/-- `reset_to` forgets everything about the previous state (cursor AND the five slots) -/
theorem resetTo_forgets (s s' : PState) (input : Str) : resetTo s input = resetTo s' input := rfl

/-- whatever state earlier inputs left behind, the next input is parsed as if alone -/
theorem parseMultiAux_eq (F : EFormat) (s : PState) (inputs : List Str) :
    F.parseMultiAux s inputs = inputs.map F.eparse := by
  induction inputs generalizing s with
  | nil => rfl
  | cons i is ih =>
    simp only [parseMultiAux, List.map_cons]
    rw [ih]
    rfl

/-- `parse_multi(s₁..sₙ)[i] = parse(sᵢ)` for every sequence of inputs — valid, partial or invalid -/
theorem parseMulti_eq (F : EFormat) (inputs : List Str) :
    F.parseMulti inputs = inputs.map F.eparse :=
  parseMultiAux_eq F _ inputs

theorem parseMulti_get (F : EFormat) (inputs : List Str) (i : Nat) :
    (F.parseMulti inputs)[i]? = (inputs[i]?).map F.eparse := by
  rw [parseMulti_eq]; simp

/-- the result for position `i` does not depend on the other inputs at all -/
theorem parseMulti_prefix_irrelevant (F : EFormat) (before before' : List Str) (x : Str) (after : List Str) :
    (F.parseMulti (before ++ x :: after))[before.length]? = (F.parseMulti (before' ++ x :: after))[before'.length]? := by
  simp [parseMulti_eq]

/-- the residue a term-only parse leaves in the state (e.g. a budget) is exactly what `reset_to`
must clear: a model state that kept it would give a different result for the next input. -/
theorem residue_exists :
    ∃ (m : Mid), m.budget.isSome ∧ ∀ c t, (transformMid c { m with term := some t }).toRes.isOk = true ∧
      ∀ v m', transformMid c { m with term := some t } = .ok (v, m') → m'.budget.isSome := by
  refine ⟨{ budget := some .empty }, rfl, ?_⟩
  intro c t
  constructor
  · simp [transformMid, PRes.toRes, Res.isOk]
  · intro v m' h
    simp [transformMid] at h
    rw [← h.2]; rfl

/-- the lexical parser has no state at all: it is a function of (format, input) -/
theorem lparse_deterministic (L : LFormat) (input : Str) (r₁ r₂ : Res LNarsese)
    (h₁ : L.lparse input = r₁) (h₂ : L.lparse input = r₂) : r₁ = r₂ := by rw [← h₁, ← h₂]

end Narsese.Props.C08
