/-
  C03 (table-independent part) — the keyword→constructor tables of the enum parser and of fold coincide,
  for EVERY format record (no generated table is used here, so the model driver may import this file).
-/
import NarseseModel.Fold
set_option autoImplicit false

namespace Narsese.Props.C03
open Narsese EFormat

/-- the keyword→constructor table of the ENUM PARSER and the one of FOLD agree on every connecter
(as sets of pairs; the parser's extra "operator" entry only rejects) -/
theorem connecter_tables_agree (F : EFormat) :
    ∀ e, e ∈ F.foldConnTable → e ∈ F.connecters := by
  intro e he
  simp only [foldConnTable, connecters, List.mem_cons, List.mem_nil_iff, or_false] at he ⊢
  rcases he with h|h|h|h|h|h|h|h|h|h|h|h <;> simp [h]

theorem connecter_tables_agree' (F : EFormat) :
    ∀ e, e ∈ F.connecters → e.2 ≠ .operatorUnsupported → e ∈ F.foldConnTable := by
  intro e he hne
  simp only [foldConnTable, connecters, List.mem_cons, List.mem_nil_iff, or_false] at he ⊢
  rcases he with h|h|h|h|h|h|h|h|h|h|h|h|h <;> simp_all

/-- atoms: the prefix→kind tables of the enum parser and of fold hold the same pairs -/
theorem atom_tables_agree (F : EFormat) : ∀ e, e ∈ F.foldAtomTable ↔ e ∈ F.atomHeads := by
  intro e
  simp only [foldAtomTable, atomHeads, List.mem_cons, List.mem_nil_iff, or_false]
  constructor <;> (intro h; rcases h with h|h|h|h|h|h|h <;> simp [h])

/-- copulas: fold uses the very table the enum parser uses (including the four derived copulas) -/
theorem copula_table_shared (F : EFormat) (cop : Str) (s p : Term) (ck : CopK)
    (h : F.copulaTable.find? (fun e => cop = e.1) = some (cop, ck)) :
    F.foldStatement cop s p = .ok (ck.build s p) := by
  simp [foldStatement, h]

end Narsese.Props.C03
