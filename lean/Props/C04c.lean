/-
  C04 (continued, 2): the slot door `parse::<NarseseOptions<…>>` is a public enum parsing entry point as well; it is
  total like the others (theorem proved in `Props/C15c.lean`, restated here as an obligation of C04).
-/
import Props.C15c
set_option autoImplicit false

namespace Narsese.Props.C04
open Narsese EFormat

theorem slot_door_total (F : EFormat) (hs : SaneAll F) (input : Str) : (F.parseMidDoor input).total = true :=
  C15.mid_door_total F hs input

end Narsese.Props.C04
