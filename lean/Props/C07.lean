/-
  C07 — equal terms hash equally, so terms work as hash-map and hash-set keys.

  `feed h0 t` is the exact sequence of `Hasher::write_*` calls `t.hash(state)` performs (after the D1
  repair); unordered parts contribute their length and the wrapping sum of the elements' own hashes
  under the fixed-key hasher `h0`, which is an ARBITRARY function in the theorems.
-/
import Proofs.SetBuild
set_option autoImplicit false

namespace Narsese.Props.C07
open Narsese

/-- **equal terms feed the hasher identically** — hence produce the same hash under ANY hasher `H` -/
theorem feed_respects_sem (h0 : List Tok → Nat) (a b : Term) (ha : built a = true) (hb : built b = true)
    (h : sem a b = true) : feed h0 a = feed h0 b :=
  Narsese.feed_respects_sem h0 a b ha hb h

theorem equal_hash_any_hasher {H : Type} (hash : List Tok → H) (h0 : List Tok → Nat) (a b : Term)
    (ha : built a = true) (hb : built b = true) (h : eqImpl h0 a b = true) :
    hash (feed h0 a) = hash (feed h0 b) := by
  rw [eqImpl_eq_sem h0 a b ha hb] at h
  rw [Narsese.feed_respects_sem h0 a b ha hb h]

/-- **a term inserted into a hash set is found again by any equal term** -/
theorem set_contains_equal (h0 : List Tok → Nat) (a b : Term) (ha : built a = true) (hb : built b = true)
    (h : sem a b = true) : lookupSet h0 (insertSet h0 [] a) b = true := by
  rw [lookupSet_eq h0 _ b (by simp [insertSet, lookupSet]; exact ha) hb]
  simp [insertSet, lookupSet, h]

/-- lookups succeed exactly for semantically equal keys (no false positives either) -/
theorem lookup_iff (h0 : List Tok → Nat) (s : List Term) (x : Term) (hs : ∀ y ∈ s, built y = true)
    (hx : built x = true) : lookupSet h0 s x = true ↔ ∃ y ∈ s, sem y x = true := by
  rw [lookupSet_eq h0 s x hs hx]; simp

/-- independence of insertion order, duplicates and operand order, stated on the feed -/
theorem feed_order_independent (h0 : List Tok → Nat) (k : SetK) (xs ys : List Term)
    (hx : ∀ x ∈ xs, built x = true) (hy : ∀ y ∈ ys, built y = true)
    (h1 : ∀ x ∈ xs, ∃ y ∈ ys, sem x y = true) (h2 : ∀ y ∈ ys, ∃ x ∈ xs, sem x y = true) :
    feed h0 (.setlike k (Terms.ofList (mkSetSem xs))) = feed h0 (.setlike k (Terms.ofList (mkSetSem ys))) :=
  Narsese.feed_respects_sem h0 _ _ (mkSet_built k xs hx) (mkSet_built k ys hy) (mkSet_order_dup_irrelevant k xs ys h1 h2)

theorem feed_symmetric_operands (h0 : List Tok → Nat) (k : BinK) (hk : k.symmetric = true) (a b : Term) :
    feed h0 (.bin k a b) = feed h0 (.bin k b a) := by
  simp only [feed, hk, if_true, wrapAdd_left_comm]

/-- non-vacuity -/
example : feed (fun l => l.length) (.bin .sim (.atom .word ['a']) (.interval 3)) =
          feed (fun l => l.length) (.bin .sim (.interval 3) (.atom .word ['a'])) := by decide

end Narsese.Props.C07
