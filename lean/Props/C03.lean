/-
  C03 — direct enum parsing and lexical parsing plus folding give the same value.

  Proved here: the enum and lexical format instances of the same name describe the SAME VOCABULARY
  for every constructor (re-decided on the tables regenerated from the crate on every run), and folding
  maps every vocabulary keyword to the constructor the enum parser builds for it (the two keyword→
  constructor tables coincide entry by entry; this is where the D4 copy-paste slip lived).
  Remaining obligation: `pipelines_agree` on all surface strings (needs the parser master theorems,
  DESIGN.md §6); covered by the `surface`, `foldtable` and `small` streams.
-/
import NarseseModel.Fold
import NarseseModel.Gen.Formats
import Props.C03a
set_option autoImplicit false

namespace Narsese.Props.C03
open Narsese EFormat

def sameSet {α : Type} [DecidableEq α] (a b : List α) : Bool :=
  a.all (fun x => b.contains x) && b.all (fun x => a.contains x) && a.length == b.length

/-- every prefix, connecter, set bracket, copula, punctuation, stamp form, truth/budget bracket and
separator of the enum table equals the corresponding lexical entry -/
def sameVocab (F : EFormat) (L : LFormat) : Bool :=
  sameSet L.atomPrefixes [F.preWord, F.prePlaceholder, F.preIVar, F.preDVar, F.preQVar, F.preInterval, F.preOperator] &&
  sameSet L.connecters [F.cExtInt, F.cIntInt, F.cExtDiff, F.cIntDiff, F.cProduct, F.cExtImg, F.cIntImg,
                        F.cConj, F.cDisj, F.cNeg, F.cSeqConj, F.cParConj] &&
  sameSet L.setBrackets [(F.extSetL, F.extSetR), (F.intSetL, F.intSetR)] &&
  (L.compL == F.compL && L.compR == F.compR && L.separator == F.separator) &&
  (L.stmtL == F.stmtL && L.stmtR == F.stmtR) &&
  sameSet L.copulas F.copulas &&
  sameSet L.punctuations [F.pJudgement, F.pGoal, F.pQuestion, F.pQuest] &&
  sameSet L.stampBrackets
    [([], F.stampL ++ F.stampPast ++ F.stampR), ([], F.stampL ++ F.stampPresent ++ F.stampR),
     ([], F.stampL ++ F.stampFuture ++ F.stampR), (F.stampL ++ F.stampFixed, F.stampR)] &&
  (L.truthL == F.truthL && L.truthR == F.truthR && L.truthSep == F.truthSep) &&
  (L.budgetL == F.budgetL && L.budgetR == F.budgetR && L.budgetSep == F.budgetSep) &&
  (L.spaceTerms == F.spaceTerms && L.spaceItems == F.spaceItems)

theorem sameVocab_ascii : sameVocab Gen.asciiE Gen.asciiL = true := by decide +kernel
theorem sameVocab_latex : sameVocab Gen.latexE Gen.latexL = true := by decide +kernel
theorem sameVocab_han : sameVocab Gen.hanE Gen.hanL = true := by decide +kernel

/-- keywords of one class are pairwise distinct in each shipped format, so "first entry equal to the
keyword" (fold) and "the entry for that constructor" coincide -/
def distinct {α : Type} [DecidableEq α] : List α → Bool
  | [] => true
  | x :: xs => !xs.contains x && distinct xs

theorem fold_keys_distinct :
    (∀ F ∈ [Gen.asciiE, Gen.latexE, Gen.hanE],
      distinct (F.foldConnTable.map (·.1)) = true ∧ distinct (F.foldAtomTable.map (·.1)) = true ∧
      distinct (F.copulaTable.map (·.1)) = true ∧ (F.extSetL, F.extSetR) ≠ (F.intSetL, F.intSetR)) := by
  decide +kernel

/-- consequently every connecter of a shipped format folds to ITS constructor class
(e.g. the intensional-difference connecter to `intDiff`, never `extDiff`) -/
theorem fold_connecter_hits :
    ∀ F ∈ [Gen.asciiE, Gen.latexE, Gen.hanE], ∀ e ∈ F.foldConnTable,
      F.foldConnTable.find? (fun x => e.1 = x.1) = some e := by
  decide +kernel

theorem fold_intDiff (F : EFormat) (hF : F ∈ [Gen.asciiE, Gen.latexE, Gen.hanE]) (a b : Term) :
    F.foldCompound F.cIntDiff [a, b] = .ok (.bin .intDiff a b) := by
  have := fold_connecter_hits F hF (F.cIntDiff, .diff .intDiff) (by simp [foldConnTable])
  simp [foldCompound, this, buildCompound]

end Narsese.Props.C03
