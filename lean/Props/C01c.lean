/-
  C01 (main theorems, whole values) — enum Narsese survives format-then-parse.

  PROVED (no bound on term depth, arity, name length or number of digits):
  for every format record satisfying the decidable side conditions `FormatOK` (term level) and `itemsOKB`
  (sentence / task level) — both decided below for the three shipped tables as regenerated from the crate —
  and every well-formed Narsese value `v` of any of the three kinds,

      parse (format v) = Ok v

  through the real entry point (`NarseseFormat::parse` = `eparse`: `build_mid_result` with its ordered
  back-off alternatives, `transform_mid_result`, the fuel the entry point itself supplies).

  Hypotheses, all decidable and all necessary:
  * `wfN`: the term is `wfT` (see `C01b.lean`); truth / budget numbers are `Num.ok` (text = what Rust prints
    for the bits, value in [0,1]); a fixed stamp fits `isize`.
  * `topN`: only for values WITHOUT a budget in front (terms and sentences): the printed term must not be
    taken for a budget by the lenient budget reader which `consume_one` tries first. Either the budget
    opener and the printed term are prefix-incompatible, or the term is `$name` sharing the opener with the
    budget and the name does not begin with a digit (then the reader provably backs off, `backoffOKB`), or
    — format-level criterion `topFmtOKB`, true for ASCII and LaTeX — the term is anything but an
    independent variable.
    The excluded inputs are exactly the recorded finding K1 (`$1`, `$1.`): `k1_*` below prove that the
    model, like the crate, fails on them, so the hypothesis cannot be dropped.
-/
import Proofs.RT.Top
import NarseseModel.Gen.Formats
import Props.C01b
import Props.C11
set_option autoImplicit false

namespace Narsese.Props.C01
open Narsese EFormat

/-- the sentence-level side condition holds for the three shipped formats (re-decided on the regenerated
tables): punctuation marks / stamp keywords pairwise distinguishable, never mistaken for a space, the budget
opener or (stamps) the truth opener; number-list separators and closers are not number characters; what
follows a fixed stamp's number is not a sign or digit; `space.format_items = space.parse` -/
theorem itemsOK_ascii : ItemsOK Gen.asciiE := ⟨formatOK_ascii, by decide +kernel⟩
theorem itemsOK_latex : ItemsOK Gen.latexE := ⟨formatOK_latex, by decide +kernel⟩
theorem itemsOK_han : ItemsOK Gen.hanE := ⟨formatOK_han, by decide +kernel⟩

/-- **C01, enum half** for every format satisfying the side conditions -/
theorem enum_roundtrip (F : EFormat) (hI : ItemsOK F) (v : Narsese) (hwf : wfN F v = true)
    (htop : topN F v = true) : F.eparse (F.fmtNarsese v) = .ok v :=
  eparse_fmtNarsese hI v hwf htop

/-- … and for the three shipped formats -/
theorem enum_roundtrip_ascii (v : Narsese) (hwf : wfN Gen.asciiE v = true) (htop : topN Gen.asciiE v = true) :
    Gen.asciiE.eparse (Gen.asciiE.fmtNarsese v) = .ok v := eparse_fmtNarsese itemsOK_ascii v hwf htop
theorem enum_roundtrip_latex (v : Narsese) (hwf : wfN Gen.latexE v = true) (htop : topN Gen.latexE v = true) :
    Gen.latexE.eparse (Gen.latexE.fmtNarsese v) = .ok v := eparse_fmtNarsese itemsOK_latex v hwf htop
theorem enum_roundtrip_han (v : Narsese) (hwf : wfN Gen.hanE v = true) (htop : topN Gen.hanE v = true) :
    Gen.hanE.eparse (Gen.hanE.fmtNarsese v) = .ok v := eparse_fmtNarsese itemsOK_han v hwf htop

/-- tasks need no top-level condition at all: the budget comes first -/
theorem enum_roundtrip_task (F : EFormat) (hI : ItemsOK F) (k : Task) (hwf : wfTask F k = true) :
    F.eparse (F.fmtTask k) = .ok (.task k) := eparse_fmt_task hI k hwf

/-- ASCII and LaTeX: the top-level condition only excludes independent variables whose name begins with a
digit (`topFmtOKB` decided on the regenerated tables) -/
theorem topFmt_ascii : topFmtOKB Gen.asciiE = true := by decide +kernel
theorem topFmt_latex : topFmtOKB Gen.latexE = true := by decide +kernel
theorem backoff_ascii : backoffOKB Gen.asciiE = true := by decide +kernel
theorem backoff_latex : backoffOKB Gen.latexE = true := by decide +kernel

theorem enum_roundtrip_ascii_term (t : Term) (hwf : wfT Gen.asciiE t = true)
    (h : isIVar t = false ∨ ∃ c cs, t = .atom .ivar (c :: cs) ∧ isDigit c = false) :
    Gen.asciiE.eparse (Gen.asciiE.fmtTerm t) = .ok (.term t) := by
  refine eparse_fmt_term itemsOK_ascii t hwf ?_
  rcases h with h | ⟨c, cs, rfl, hd⟩
  · exact topOK_of_notIVar formatOK_ascii topFmt_ascii t hwf h
  · refine topOK_of_B itemsOK_ascii _ hwf ?_
    have hb : (Gen.asciiE.budgetL == Gen.asciiE.preIVar) = true := by decide +kernel
    simp [topOKB, backoff_ascii, hb, hd]

/-- the kind of the value is preserved (what C15 needs from the round trip) -/
theorem roundtrip_kind (F : EFormat) (hI : ItemsOK F) (v : Narsese) (hwf : wfN F v = true)
    (htop : topN F v = true) : (F.eparse (F.fmtNarsese v)).map NValue.kind = .ok v.kind := by
  rw [eparse_fmtNarsese hI v hwf htop]; rfl

/-- printing is injective on well-formed values: two values with the same text are the same value -/
theorem fmtNarsese_injective (F : EFormat) (hI : ItemsOK F) (v w : Narsese)
    (hv : wfN F v = true) (hw : wfN F w = true) (tv : topN F v = true) (tw : topN F w = true)
    (h : F.fmtNarsese v = F.fmtNarsese w) : v = w := by
  have h1 := eparse_fmtNarsese hI v hv tv
  have h2 := eparse_fmtNarsese hI w hw tw
  rw [h, h2] at h1
  exact (Res.ok.inj h1).symm

/-! ### non-vacuity and necessity of the hypotheses -/

def n09 : Num := { bits := 4606281698874543309, text := "0.9".toList }
def n05 : Num := { bits := 4602678819172646912, text := "0.5".toList }
def n1 : Num := { bits := 4607182418800017408, text := "1".toList }

/-- a task with every optional item present, over the nested sample term of `C01b.lean` -/
def sampleTask : Narsese :=
  .task { sentence := .judgement sample (.double n1 n09) (.fixed (-137)), budget := .triple n05 n09 n1 }
def sampleSentence : Narsese := .sentence (.goal sample (.single n05) .future)
def sampleQuestion : Narsese := .sentence (.question (.atom .ivar "x1".toList) .eternal)

example : wfN Gen.asciiE sampleTask = true ∧ wfN Gen.latexE sampleTask = true ∧ wfN Gen.hanE sampleTask = true ∧
    topN Gen.asciiE sampleTask = true := by decide +kernel
example : wfN Gen.asciiE sampleSentence = true ∧ topN Gen.asciiE sampleSentence = true ∧
    wfN Gen.latexE sampleSentence = true ∧ topN Gen.latexE sampleSentence = true ∧
    wfN Gen.hanE sampleSentence = true ∧ topN Gen.hanE sampleSentence = true := by decide +kernel
example : wfN Gen.asciiE sampleQuestion = true ∧ topN Gen.asciiE sampleQuestion = true ∧
    wfN Gen.latexE sampleQuestion = true ∧ topN Gen.latexE sampleQuestion = true := by decide +kernel

/-- K1 (recorded finding): the excluded case really fails — `$1` is a well-formed independent variable whose
printed form the whole-value parser does not read back; so `topN` cannot be dropped -/
def k1Term : Term := .atom .ivar "1".toList
theorem k1_wf : wfT Gen.asciiE k1Term = true := by decide +kernel
theorem k1_excluded : topN Gen.asciiE (.term k1Term) = false := by decide +kernel
theorem k1_fails : Gen.asciiE.eparse (Gen.asciiE.fmtNarsese (.term k1Term)) ≠ .ok (.term k1Term) := by
  decide +kernel
theorem k1_sentence_fails :
    Gen.asciiE.eparse (Gen.asciiE.fmtNarsese (.sentence (.judgement k1Term .empty .eternal))) ≠
      .ok (.sentence (.judgement k1Term .empty .eternal)) := by
  decide +kernel

/-- tie of the model's copula look-ahead list (`EFormat.copulas`, written out in the model) to what the crate's
`NarseseFormat::copulas()` yields, regenerated on every run: the theorems of this file talk about the model's list -/
theorem copulas_lookahead_tie :
    Gen.asciiE.copulas = Gen.asciiCopulasOrder ∧ Gen.latexE.copulas = Gen.latexCopulasOrder ∧
    Gen.hanE.copulas = Gen.hanCopulasOrder := C11.copulas_order

end Narsese.Props.C01
