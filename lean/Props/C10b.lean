/-
  C10 (end to end) — the derived copulas and the image sugar mean what the documentation says, on strings,
  in both pipelines, at any nesting position and with any spacing.
  Corollaries of the master theorem (`Proofs/MRT/*`, `Props/C09b.lean`).
-/
import Props.C09b
import Props.C11
set_option autoImplicit false

namespace Narsese.Props.C10
open Narsese EFormat

/-- `parse_term` on `< S cop P >` (any spacing) for the four derived copulas returns the documented term -/
theorem derived_copulas_parse (F : EFormat) (hS : SurfaceOK F) (a b c d : Nat) (s p : STerm) (s' p' : Term)
    (hlen : 13 ≤ F.copulaTable.length) (hws : wfS F s = true) (hwp : wfS F p = true)
    (hs : den F s = some s') (hp : den F p = some p') (rest : Str) (hst : Stop F rest) (len : Nat) :
    (∀ fuel, 3 * (stxt F (.stmt a s b 4 c p d) ++ rest).length + 2 ≤ fuel →
      F.parseTerm fuel (mk len (stxt F (.stmt a s b 4 c p d) ++ rest)) = .ok (denoteInstance s' p', mk len rest)) ∧
    (∀ fuel, 3 * (stxt F (.stmt a s b 5 c p d) ++ rest).length + 2 ≤ fuel →
      F.parseTerm fuel (mk len (stxt F (.stmt a s b 5 c p d) ++ rest)) = .ok (denoteProperty s' p', mk len rest)) ∧
    (∀ fuel, 3 * (stxt F (.stmt a s b 6 c p d) ++ rest).length + 2 ≤ fuel →
      F.parseTerm fuel (mk len (stxt F (.stmt a s b 6 c p d) ++ rest)) =
        .ok (denoteInstanceProperty s' p', mk len rest)) ∧
    (∀ fuel, 3 * (stxt F (.stmt a s b 12 c p d) ++ rest).length + 2 ≤ fuel →
      F.parseTerm fuel (mk len (stxt F (.stmt a s b 12 c p d) ++ rest)) = .ok (denoteEquivRetro s' p', mk len rest)) := by
  obtain ⟨m1, m2, m3, m4⟩ := C09.derived_meaning F s' p'
  refine ⟨fun fuel hf => ?_, fun fuel hf => ?_, fun fuel hf => ?_, fun fuel hf => ?_⟩
  · rw [← m1]; exact C09.derived_statement F hS a b c d 4 s p s' p' (by omega) hws hwp hs hp rest hst len fuel hf
  · rw [← m2]; exact C09.derived_statement F hS a b c d 5 s p s' p' (by omega) hws hwp hs hp rest hst len fuel hf
  · rw [← m3]; exact C09.derived_statement F hS a b c d 6 s p s' p' (by omega) hws hwp hs hp rest hst len fuel hf
  · rw [← m4]; exact C09.derived_statement F hS a b c d 12 s p s' p' (by omega) hws hwp hs hp rest hst len fuel hf

/-- … and the lexical pipeline builds the same terms for them (fold of the erased tree = denotation) -/
theorem derived_copulas_fold (F : EFormat) (hO : FoldOK F) (st : STerm) (hwf : wfS F st = true) (t : Term)
    (hd : den F st = some t) : F.foldTerm (erase F st) = .ok t := fold_erase hO st hwf t hd

/-- an image written with its connecter: the placeholder's position becomes the index, the other
components keep their order — for the surface tree `( conn , c₁ , … , _ , … , cₙ )` at any spacing -/
theorem image_surface (F : EFormat) (k : ImgK) (pre post : List Term) (h : noPlaceholder pre) :
    finishT (.img k) (pre ++ .placeholder :: post) = some (.image k pre.length (Terms.ofList (pre ++ post))) := by
  simp [finishT, image_index_enum pre post h]

/-- tie of the model's copula look-ahead list (`EFormat.copulas`, written out in the model) to what the crate's
`NarseseFormat::copulas()` yields, regenerated on every run: the theorems of this file talk about the model's list -/
theorem copulas_lookahead_tie :
    Gen.asciiE.copulas = Gen.asciiCopulasOrder ∧ Gen.latexE.copulas = Gen.latexCopulasOrder ∧
    Gen.hanE.copulas = Gen.hanCopulasOrder := C11.copulas_order

end Narsese.Props.C10
