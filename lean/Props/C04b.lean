/-
  C04 (main theorems) — the enum parser is total: every input string yields Ok or Err, for every entry point.
-/
import Proofs.EParseTotal
import NarseseModel.Gen.Formats
set_option autoImplicit false

namespace Narsese.Props.C04
open Narsese EFormat

/-- the three shipped formats satisfy the (decidable) side condition: none of the keywords whose
emptiness would let a loop spin is empty — re-decided on the tables regenerated from the crate -/
theorem shipped_sane : ∀ F ∈ [Gen.asciiE, Gen.latexE, Gen.hanE], SaneAll F := by
  intro F hF
  apply saneAll_of_bool
  revert F
  decide +kernel

/-- **`eparse_total`**: `parse::<Narsese>` / `parse_chars` — for ALL strings (no bound on size or nesting) -/
theorem eparse_total (F : EFormat) (hs : SaneAll F) (input : Str) : (F.eparse input).total = true :=
  Narsese.eparse_total F hs input

/-- `parse_multi`: every element of the result, for every sequence of inputs -/
theorem parseMulti_total (F : EFormat) (hs : SaneAll F) (inputs : List Str) :
    ∀ r ∈ F.parseMulti inputs, r.total = true :=
  Narsese.parseMulti_total F hs _ inputs

/-- the stand-alone truth / budget parsers (the other two side doors are in `C04.lean`) -/
theorem truthDoor_total (F : EFormat) (hs : SaneAll F) (input : Str) : (F.parseTruthDoor input).total = true :=
  Narsese.truthDoor_total F hs input
theorem budgetDoor_total (F : EFormat) (hs : SaneAll F) (input : Str) : (F.parseBudgetDoor input).total = true :=
  Narsese.budgetDoor_total F hs input

/-- the termination argument, stated on its own: a successful term parse strictly advances the cursor,
and `3·|rest| + 2` units of fuel always suffice (the entry points supply `4·|rest| + 8`) -/
theorem term_progress_and_fuel (F : EFormat) (hs : SaneAll F) (fuel : Nat) (c : Cur) :
    F.parseTerm fuel c ≠ .panic ∧
    (∀ t c', F.parseTerm fuel c = .ok (t, c') → c'.rest.length < c.rest.length) ∧
    (3 * c.rest.length + 2 ≤ fuel → F.parseTerm fuel c ≠ .fuel) := by
  have := parseTerm_good F hs.toSane fuel c
  exact ⟨this.1, fun t c' h => by simpa using this.2.1 t c' h, this.2.2⟩

/-- all three shipped formats, all inputs -/
theorem shipped_total (input : Str) :
    (Gen.asciiE.eparse input).total = true ∧ (Gen.latexE.eparse input).total = true ∧ (Gen.hanE.eparse input).total = true :=
  ⟨eparse_total _ (shipped_sane _ (by simp)) _, eparse_total _ (shipped_sane _ (by simp)) _, eparse_total _ (shipped_sane _ (by simp)) _⟩

/-- non-vacuity: adversarial inputs that used to panic (D3) evaluate to `err` in the model -/
example : Gen.asciiE.eparse "(-, {{{{{{a".toList = .err := by decide +kernel

end Narsese.Props.C04
