/-
  C12 — values produced by parsing or folding are always well-formed.

  Proved here at full strength for FOLDING (any lexical value, any format): every truth / budget
  component of an `Ok` result lies in [0,1] and every image index is at most its component count, at
  every nesting depth; and the range / arity facts for the enum parser's item readers.
  The enum PARSER part (`eparse_wf`: for every input string and every format record) is proved in
  `C12b.lean`. Together: C12 is proved at full strength on the model.
-/
import Proofs.FoldLemmas
import NarseseModel.Api
set_option autoImplicit false

namespace Narsese.Props.C12
open Narsese EFormat

/-! ### ranges -/

def Truth.inRange (t : Truth) : Bool := t.components.all Num.in01
def Budget.inRange (b : Budget) : Bool := b.components.all Num.in01

theorem truth_tryFromFloats_range (xs : List Num) (t : Truth) (h : Truth.tryFromFloats xs = .ok t) :
    Truth.inRange t = true := by
  unfold Truth.tryFromFloats at h
  cases hg : GTruth.tryFromFloats Num.in01 xs with
  | ok g =>
    rw [hg] at h; simp [Res.map] at h; subst h
    have hc := Props.C13.truth_try_components Num.in01 xs g hg
    have hok := Props.C13.truth_try_ok_iff Num.in01 xs
    rw [hg] at hok; simp [Res.isOk] at hok
    have : (Truth.ofG g).components = g.components := by cases g <;> rfl
    simp only [Truth.inRange, this, hc.1]
    simpa using hok
  | _ => rw [hg] at h; simp [Res.map] at h

theorem budget_tryFromFloats_range (xs : List Num) (b : Budget) (h : Budget.tryFromFloats xs = .ok b) :
    Budget.inRange b = true := by
  unfold Budget.tryFromFloats at h
  cases hg : GBudget.tryFromFloats Num.in01 xs with
  | ok g =>
    rw [hg] at h; simp [Res.map] at h; subst h
    have hc := Props.C13.budget_try_components Num.in01 xs g hg
    have hok := Props.C13.budget_try_ok_iff Num.in01 xs
    rw [hg] at hok; simp [Res.isOk] at hok
    have : (Budget.ofG g).components = g.components := by cases g <;> rfl
    simp only [Budget.inRange, this, hc.1]
    simpa using hok
  | _ => rw [hg] at h; simp [Res.map] at h

/-! ### image indexes, at every depth -/

mutual
  /-- every image's placeholder index is at most the number of its components -/
  def imgOK : Term → Bool
    | .image _ i ts => decide (i ≤ ts.length) && imgOKs ts
    | .setlike _ ts | .seqlike _ ts => imgOKs ts
    | .neg t => imgOK t
    | .bin _ a b => imgOK a && imgOK b
    | _ => true
  def imgOKs : Terms → Bool
    | .nil => true
    | .cons t ts => imgOK t && imgOKs ts
end

theorem imgOKs_ofList (l : List Term) : imgOKs (Terms.ofList l) = l.all imgOK := by
  induction l with
  | nil => rfl
  | cons t ts ih => simp [Terms.ofList, imgOKs, ih]

theorem dedupSem_subset : ∀ (xs acc : List Term) (x : Term), x ∈ dedupSem acc xs → x ∈ acc ∨ x ∈ xs
  | [], acc, x, h => by simp [dedupSem] at h; exact .inl h
  | y :: ys, acc, x, h => by
    simp only [dedupSem] at h
    split at h
    · rcases dedupSem_subset ys acc x h with h | h
      · exact .inl h
      · exact .inr (by simp [h])
    · rcases dedupSem_subset ys (acc ++ [y]) x h with h | h
      · simp at h; rcases h with h | h
        · exact .inl h
        · exact .inr (by simp [h])
      · exact .inr (by simp [h])

theorem mkSetSem_all (p : Term → Bool) (ts : List Term) (h : ts.all p = true) : (mkSetSem ts).all p = true := by
  rw [List.all_eq_true] at h ⊢
  intro x hx
  rcases dedupSem_subset ts [] x hx with h' | h'
  · simp at h'
  · exact h x h'

theorem toTermsWithImage_all (p : Term → Bool) : ∀ (ts : List Term) (n : Nat) (idx : Option Nat) (acc : List Term),
    ts.all p = true → acc.all p = true → (toTermsWithImage ts n idx acc).2.all p = true
  | [], _, _, acc, _, h2 => by simpa [toTermsWithImage] using h2
  | t :: ts, n, idx, acc, h1, h2 => by
    simp only [List.all_cons, Bool.and_eq_true] at h1
    simp only [toTermsWithImage]
    split
    · exact toTermsWithImage_all p ts _ _ acc h1.2 h2
    · exact toTermsWithImage_all p ts _ _ (acc ++ [t]) h1.2 (by simp [h2, h1.1])

theorem buildCompound_imgOK (ck : ConnK) (ts : List Term) (v : Term) (hts : ts.all imgOK = true)
    (h : buildCompound ck ts = .ok v) : imgOK v = true := by
  cases ck with
  | set k =>
    simp [buildCompound] at h; subst h
    simp only [imgOK, imgOKs_ofList]; exact mkSetSem_all imgOK ts hts
  | seq k => simp [buildCompound] at h; subst h; simpa [imgOK, imgOKs_ofList] using hts
  | diff k =>
    simp only [buildCompound] at h
    split at h
    · injection h with h; subst h; simp_all [imgOK]
    · simp at h
  | img k =>
    simp only [buildCompound] at h
    split at h
    · next i ts' heq =>
      have hi := toTermsWithImage_index ts i ts' heq
      have hall := toTermsWithImage_all imgOK ts 0 none [] hts (by simp)
      rw [heq] at hall
      simp only [newImage] at h
      split at h
      · simp at h
      · injection h with h; subst h
        simp only [imgOK, imgOKs_ofList, Bool.and_eq_true, decide_eq_true_eq]
        refine ⟨?_, hall⟩
        rw [← Terms.length_toList, Terms.toList_ofList]; exact hi
    · simp at h
  | neg =>
    simp only [buildCompound] at h
    split at h
    · injection h with h; subst h; simp_all [imgOK]
    · simp at h
  | operatorUnsupported => simp [buildCompound] at h

theorem copBuild_imgOK (ck : CopK) (s p : Term) (hs : imgOK s = true) (hp : imgOK p = true) :
    imgOK (ck.build s p) = true := by
  cases ck <;> simp [CopK.build, imgOK, imgOKs, hs, hp]

mutual
  /-- **`fold_wf` (image indexes)**: whatever the lexical term, an `Ok` fold has every image index in range -/
  theorem fold_term_imgOK (F : EFormat) : ∀ (x : LTerm) (v : Term), F.foldTerm x = .ok v → imgOK v = true
    | .atom pre name, v, h => by
      simp only [foldTerm, foldAtom] at h
      split at h
      · next hd _ =>
        cases hd <;> simp only [buildAtom] at h
        · injection h with h; subst h; rfl
        · split at h
          · injection h with h; subst h; rfl
          · simp at h
        · injection h with h; subst h; rfl
      · simp at h
    | .compound conn ts, v, h => by
      simp only [foldTerm] at h
      split at h
      · next ts' hts =>
        simp only [foldCompound] at h
        split at h
        · exact buildCompound_imgOK _ ts' v (fold_terms_imgOK F ts ts' hts) h
        · simp at h
      all_goals simp at h
    | .set l ts r, v, h => by
      simp only [foldTerm] at h
      split at h
      · next ts' hts =>
        simp only [foldSet] at h
        split at h
        · injection h with h; subst h
          simp only [imgOK, imgOKs_ofList]
          exact mkSetSem_all imgOK ts' (fold_terms_imgOK F ts ts' hts)
        · simp at h
      all_goals simp at h
    | .stmt cop s p, v, h => by
      simp only [foldTerm] at h
      split at h
      · next s' hs =>
        split at h
        · next p' hp =>
          simp only [foldStatement] at h
          split at h
          · injection h with h; subst h
            exact copBuild_imgOK _ _ _ (fold_term_imgOK F s s' hs) (fold_term_imgOK F p p' hp)
          · simp at h
        all_goals simp at h
      all_goals simp at h
  theorem fold_terms_imgOK (F : EFormat) : ∀ (xs : LTerms) (vs : List Term), F.foldTerms xs = .ok vs → vs.all imgOK = true
    | .nil, vs, h => by simp [foldTerms] at h; subst h; rfl
    | .cons t ts, vs, h => by
      simp only [foldTerms] at h
      split at h
      · next t' ht =>
        split at h
        · next ts' hts =>
          injection h with h; subst h
          simp [fold_term_imgOK F t t' ht, fold_terms_imgOK F ts ts' hts]
        all_goals simp at h
      all_goals simp at h
end

/-- well-formedness of a whole value: ranges and image indexes -/
def Sentence.wf (s : Sentence) : Bool := imgOK s.term && Truth.inRange s.truthOrEmpty
def Narsese.wf : Narsese → Bool
  | .term t => imgOK t
  | .sentence s => Sentence.wf s
  | .task k => Sentence.wf k.sentence && Budget.inRange k.budget

theorem res_bind_ok {α β : Type} {x : Res α} {f : α → Res β} {b : β} (h : x.bind f = .ok b) :
    ∃ a, x = .ok a ∧ f a = .ok b := by
  cases x <;> simp_all [Res.bind]

theorem fold_sentence_wf (F : EFormat) (x : LSentence) (s : Sentence) (h : F.foldSentence x = .ok s) :
    Sentence.wf s = true := by
  unfold foldSentence at h
  obtain ⟨t, ht, h⟩ := res_bind_ok h
  obtain ⟨tr, htr, h⟩ := res_bind_ok h
  obtain ⟨st, _, h⟩ := res_bind_ok h
  obtain ⟨p, _, h⟩ := res_bind_ok h
  injection h with h; subst h
  have h1 := fold_term_imgOK F _ _ ht
  obtain ⟨xs, _, hx⟩ := res_bind_ok htr
  have h2 := truth_tryFromFloats_range xs tr hx
  cases p <;> simp_all [Sentence.wf, Sentence.fromPunctuation, Sentence.term, Sentence.truthOrEmpty, Truth.inRange, Truth.components]

/-- **`fold_wf`**: for all lexical values `x` and formats `F`: `fold(x) = Ok(v) ⇒ ranges(v) ∧ image_index(v)` -/
theorem fold_wf (F : EFormat) (x : LNarsese) (v : Narsese) (h : F.foldNarsese x = .ok v) : Narsese.wf v = true := by
  cases x with
  | term t =>
    simp only [foldNarsese] at h
    cases ht : F.foldTerm t <;> simp_all [Res.map]
    subst h; exact fold_term_imgOK F t _ ht
  | sentence s =>
    simp only [foldNarsese] at h
    cases hs : F.foldSentence s <;> simp_all [Res.map]
    subst h; exact fold_sentence_wf F s _ hs
  | task k =>
    simp only [foldNarsese] at h
    cases hk : F.foldTask k <;> simp_all [Res.map]
    subst h
    unfold foldTask at hk
    obtain ⟨b, hb, hk⟩ := res_bind_ok hk
    obtain ⟨s, hs, hk⟩ := res_bind_ok hk
    injection hk with hk; subst hk
    obtain ⟨xs, _, hx⟩ := res_bind_ok hb
    simp [Narsese.wf, fold_sentence_wf F _ _ hs, budget_tryFromFloats_range xs b hx]

/-! ### the printers are total functions of the model (no partial operation is reachable):
`get_atom_name_unchecked` is only applied to atoms, `[0]`/`[1]` only to two-element vectors -/

theorem atomNameUnchecked_total (t : Term) (h : t.isAtom = true) : t.atomNameUnchecked.total = true := by
  cases t <;> simp_all [Term.atomNameUnchecked, Term.isAtom, Term.category, Res.total]
  next k a b => cases hk : k.isStatement <;> simp_all

theorem statement_has_two_components (t : Term) (h : t.isStatement = true) : t.components.length = 2 := by
  cases t <;> simp_all [Term.isStatement, Term.category, Term.components]

end Narsese.Props.C12
