/-
  C11 — ASCII output conforms to the published CommonNarsese grammar.

  Proved here: the ASCII keywords of BOTH format instances are exactly the OpenNARS-compatible lexicon
  (typed in below from the OpenNARS "Narsese Grammar (Input/Output Format)" page the source cites,
  plus the two CommonNarsese additions the README lists: retrospective equivalence `<\>` and the
  fixed stamp `:!n:`), re-decided on the tables regenerated from the crate on every run.
  The conformance of whole formatted strings to the README PEG (`ascii_conforms`) is checked by the
  reference-grammar correspondence (see DESIGN.md §6, C11) — theorem still open.
-/
import NarseseModel.Gen.Formats
set_option autoImplicit false

namespace Narsese.Props.C11
open Narsese

/-- the lexicon, as published -/
structure Lexicon where
  budget : Str × Str × Str          -- left, separator, right
  truth : Str × Str × Str
  punctuations : List Str            -- judgement, goal, question, quest
  tenses : List Str                  -- past, present, future (with their `:` brackets)
  fixedStamp : Str × Str             -- `:!` … `:`
  copulas : List Str                 -- in the order of `NarseseFormat::copulas()`
  variablePrefixes : List Str        -- independent, dependent, query
  intervalPrefix : Str
  operatorPrefix : Str
  placeholder : Str
  compoundBrackets : Str × Str
  statementBrackets : Str × Str
  extSet : Str × Str
  intSet : Str × Str
  separator : Str
  connecters : List Str              -- ext∩, int∩, ext−, int−, ×, /, \, ∧, ∨, ¬, seq∧, par∧
  deriving DecidableEq

def s (x : String) : Str := x.toList

def openNars : Lexicon where
  budget := (s "$", s ";", s "$")
  truth := (s "%", s ";", s "%")
  punctuations := [s ".", s "!", s "?", s "@"]
  tenses := [s ":\\:", s ":|:", s ":/:"]
  fixedStamp := (s ":!", s ":")
  copulas := [s "-->", s "<->", s "==>", s "<=>", s "{--", s "--]", s "{-]",
              s "=/>", s "=|>", s "=\\>", s "</>", s "<|>", s "<\\>"]
  variablePrefixes := [s "$", s "#", s "?"]
  intervalPrefix := s "+"
  operatorPrefix := s "^"
  placeholder := s "_"
  compoundBrackets := (s "(", s ")")
  statementBrackets := (s "<", s ">")
  extSet := (s "{", s "}")
  intSet := (s "[", s "]")
  separator := s ","
  connecters := [s "&", s "|", s "-", s "~", s "*", s "/", s "\\", s "&&", s "||", s "--", s "&/", s "&|"]

def lexiconOfEnum (F : EFormat) : Lexicon where
  budget := (F.budgetL, F.budgetSep, F.budgetR)
  truth := (F.truthL, F.truthSep, F.truthR)
  punctuations := [F.pJudgement, F.pGoal, F.pQuestion, F.pQuest]
  tenses := [F.stampL ++ F.stampPast ++ F.stampR, F.stampL ++ F.stampPresent ++ F.stampR,
             F.stampL ++ F.stampFuture ++ F.stampR]
  fixedStamp := (F.stampL ++ F.stampFixed, F.stampR)
  copulas := F.copulas
  variablePrefixes := [F.preIVar, F.preDVar, F.preQVar]
  intervalPrefix := F.preInterval
  operatorPrefix := F.preOperator
  placeholder := F.prePlaceholder
  compoundBrackets := (F.compL, F.compR)
  statementBrackets := (F.stmtL, F.stmtR)
  extSet := (F.extSetL, F.extSetR)
  intSet := (F.intSetL, F.intSetR)
  separator := F.separator
  connecters := [F.cExtInt, F.cIntInt, F.cExtDiff, F.cIntDiff, F.cProduct, F.cExtImg, F.cIntImg,
                 F.cConj, F.cDisj, F.cNeg, F.cSeqConj, F.cParConj]

/-- the enum ASCII instance uses exactly the published lexicon, constructor by constructor -/
theorem enum_lexicon_is_opennars : lexiconOfEnum Gen.asciiE = openNars := by decide +kernel

def permOf {α : Type} [DecidableEq α] (a b : List α) : Bool :=
  a.length == b.length && a.all (fun x => b.contains x) && b.all (fun x => a.contains x)

/-- the lexical ASCII instance (dictionaries are unordered collections) holds the same keywords -/
theorem lexical_lexicon_is_opennars :
    let L := Gen.asciiL
    let O := openNars
    (L.budgetL, L.budgetSep, L.budgetR) = O.budget ∧ (L.truthL, L.truthSep, L.truthR) = O.truth ∧
    permOf L.punctuations O.punctuations = true ∧
    permOf L.stampBrackets (O.fixedStamp :: O.tenses.map (fun t => ([], t))) = true ∧
    permOf L.copulas O.copulas = true ∧
    permOf L.atomPrefixes ([] :: O.placeholder :: O.intervalPrefix :: O.operatorPrefix :: O.variablePrefixes) = true ∧
    (L.compL, L.compR) = O.compoundBrackets ∧ (L.stmtL, L.stmtR) = O.statementBrackets ∧
    permOf L.setBrackets [O.extSet, O.intSet] = true ∧ L.separator = O.separator ∧
    permOf L.connecters O.connecters = true := by decide +kernel

/-- the copula order the model assumes is the order the crate's `copulas()` yields (tie obligation) -/
theorem copulas_order :
    Gen.asciiE.copulas = Gen.asciiCopulasOrder ∧ Gen.latexE.copulas = Gen.latexCopulasOrder ∧
    Gen.hanE.copulas = Gen.hanCopulasOrder := by decide +kernel

end Narsese.Props.C11
