/-
  C10 (table-independent part) — documented meaning of every copula of the parser's table, the derived
  copulas, image index in both pipelines, placeholder prefix: for EVERY format record (no generated table is
  used here, so the model driver may import this file).
-/
import NarseseModel.Fold
set_option autoImplicit false

namespace Narsese.Props.C10
open Narsese EFormat

/-! ### documented meanings -/
def denoteInstance (S P : Term) : Term := .bin .inh (.setlike .extSet (.cons S .nil)) P
def denoteProperty (S P : Term) : Term := .bin .inh S (.setlike .intSet (.cons P .nil))
def denoteInstanceProperty (S P : Term) : Term :=
  .bin .inh (.setlike .extSet (.cons S .nil)) (.setlike .intSet (.cons P .nil))
def denoteEquivRetro (S P : Term) : Term := .bin .equivPred P S

/-- which constructor class each of the 13 copula keywords stands for, per the documentation -/
def documentedCopula (F : EFormat) : List (Str × (Term → Term → Term)) :=
  [ (F.copInh, fun s p => .bin .inh s p), (F.copSim, fun s p => .bin .sim s p),
    (F.copImpl, fun s p => .bin .impl s p), (F.copEquiv, fun s p => .bin .equiv s p),
    (F.copInstance, denoteInstance), (F.copProperty, denoteProperty), (F.copInstProp, denoteInstanceProperty),
    (F.copImplPred, fun s p => .bin .implPred s p), (F.copImplConc, fun s p => .bin .implConc s p),
    (F.copImplRetro, fun s p => .bin .implRetro s p), (F.copEquivPred, fun s p => .bin .equivPred s p),
    (F.copEquivConc, fun s p => .bin .equivConc s p), (F.copEquivRetro, denoteEquivRetro) ]

/-- **the table both pipelines use maps every copula keyword to its documented meaning**, in the same order -/
theorem copulaTable_denotes (F : EFormat) (S P : Term) :
    F.copulaTable.map (fun e => (e.1, e.2.build S P)) = (documentedCopula F).map (fun e => (e.1, e.2 S P)) := by
  simp [copulaTable, documentedCopula, CopK.build, denoteInstance, denoteProperty, denoteInstanceProperty, denoteEquivRetro]

theorem sugar_instance (S P : Term) : CopK.instance_.build S P = denoteInstance S P := rfl
theorem sugar_property (S P : Term) : CopK.property.build S P = denoteProperty S P := rfl
theorem sugar_instance_property (S P : Term) : CopK.instProp.build S P = denoteInstanceProperty S P := rfl
theorem sugar_equiv_retrospective (S P : Term) : CopK.equivRetro.build S P = denoteEquivRetro S P := rfl

/-- a one-element set built by either pipeline is the one-element set -/
theorem singleton_set (t : Term) : mkSetSem [t] = [t] := by simp [mkSetSem, dedupSem]

/-! ### images: index of the FIRST placeholder, remaining components in order -/

def noPlaceholder (ts : List Term) : Prop := ∀ t ∈ ts, t ≠ .placeholder

/-- enum parser: `position` + `remove` -/
theorem image_index_enum : ∀ (pre post : List Term), noPlaceholder pre →
    extractPlaceholder (pre ++ .placeholder :: post) = some (pre.length, pre ++ post)
  | [], post, _ => by simp [extractPlaceholder]
  | t :: pre, post, h => by
    have ht : t ≠ .placeholder := h t (by simp)
    have ih := image_index_enum pre post (fun x hx => h x (by simp [hx]))
    simp [extractPlaceholder, ht, ih]

theorem toTermsWithImage_acc : ∀ (ts : List Term) (n : Nat) (i : Nat) (acc : List Term),
    toTermsWithImage ts n (some i) acc = (some i, acc ++ ts)
  | [], _, _, acc => by simp [toTermsWithImage]
  | t :: ts, n, i, acc => by simp [toTermsWithImage, toTermsWithImage_acc ts (n + 1) i (acc ++ [t])]

/-- fold: `to_terms_with_image` (later placeholders stay components, exactly as the enum parser leaves them) -/
theorem image_index_fold : ∀ (pre post acc : List Term) (n : Nat), noPlaceholder pre →
    toTermsWithImage (pre ++ .placeholder :: post) n none acc = (some (n + pre.length), acc ++ (pre ++ post))
  | [], post, acc, n, _ => by simp [toTermsWithImage, toTermsWithImage_acc]
  | t :: pre, post, acc, n, h => by
    have ht : t ≠ .placeholder := h t (by simp)
    have ih := image_index_fold pre post (acc ++ [t]) (n + 1) (fun x hx => h x (by simp [hx]))
    simp only [List.cons_append, toTermsWithImage, ht, decide_false, Bool.false_and, if_false,
      Bool.false_eq_true, ih, List.length_cons, List.append_assoc, List.singleton_append]
    congr 2; omega

/-- both pipelines build `image(i, t₁..tₙ)` from `t₁..tᵢ, _, tᵢ₊₁..tₙ` -/
theorem image_both_pipelines (k : ImgK) (pre post : List Term) (h : noPlaceholder pre) :
    buildCompound (.img k) (pre ++ .placeholder :: post) = .ok (.image k pre.length (Terms.ofList (pre ++ post))) ∧
    extractPlaceholder (pre ++ .placeholder :: post) = some (pre.length, pre ++ post) := by
  refine ⟨?_, image_index_enum pre post h⟩
  have := image_index_fold pre post [] 0 h
  simp only [List.nil_append, Nat.zero_add] at this
  simp only [buildCompound, this, newImage]
  have : ¬ (pre.length > (pre ++ post).length) := by simp
  simp [this]

/-! ### placeholder: whatever follows its prefix -/

/-- the placeholder prefix is tried first, and the scanned name is discarded -/
theorem placeholder_ignores_name (F : EFormat) (c : Cur) (h : c.startsWith F.prePlaceholder = true) :
    ∃ c', F.parseAtom c = .ok (.placeholder, c') := by
  simp [parseAtom, atomHeads, h]

end Narsese.Props.C10
