/-
  C15 — term / sentence / task classification and conversions are lossless.
-/
import NarseseModel.EParser
import NarseseModel.Lex
set_option autoImplicit false

namespace Narsese.Props.C15
open Narsese EFormat LFormat

/-! ### classification: identical in both parsers, a function of which items were recognised -/

/-- result kind from the filled slots: task iff budget ∧ term ∧ punctuation, sentence iff term ∧
punctuation without budget, term otherwise (2 / 1 / 0); `none` when the term is missing -/
def kindOfSlots (budget term punct : Bool) : Option Nat :=
  if !term then none else if punct then (if budget then some 2 else some 1) else some 0

theorem enum_transform_kind (c : Cur) (m : Mid) :
    (match transformMid c m with
     | .ok (v, _) => some v.kind
     | _ => none) = kindOfSlots m.budget.isSome m.term.isSome m.punct.isSome
      ∨ (m.term.isNone ∧ transformMid c m = .panic) := by
  unfold transformMid kindOfSlots
  cases hm : m.term with
  | none =>
    simp [raise]
    by_cases hw : windowOk c.len c.head <;> simp [hw]
  | some t =>
    cases hp : m.punct with
    | none => simp [NValue.kind]
    | some p =>
      cases hb : m.budget with
      | none => simp [NValue.kind]
      | some b => simp [NValue.kind]

theorem lexical_fold_kind (m : LMid) :
    (m.fold.map NValue.kind) = kindOfSlots m.budget.isSome m.term.isSome m.punct.isSome := by
  unfold LMid.fold kindOfSlots
  cases m.term <;> cases m.punct <;> cases m.budget <;> simp [NValue.kind]

/-- an empty budget is still a budget: the slot is filled, so the result is a task -/
theorem empty_budget_is_task (c : Cur) (t : Term) (p : Punct) :
    ∃ k m', transformMid c { budget := some .empty, term := some t, punct := some p } = .ok (.task k, m') ∧
      k.budget = .empty := by
  simp [transformMid]

/-! ### casts -/

theorem cast_roundtrip (s : Sentence) : (Sentence.castToTask s).tryCastToSentence = .inl s := by
  simp [Sentence.castToTask, Task.tryCastToSentence, Budget.isEmpty]

theorem tryCast_task (k : Task) :
    (k.budget.isEmpty = true → k.tryCastToSentence = .inl k.sentence) ∧
    (k.budget.isEmpty = false → k.tryCastToSentence = .inr k) := by
  unfold Task.tryCastToSentence
  cases k.budget.isEmpty <;> simp

theorem lex_cast_roundtrip (s : LSentence) : (LSentence.castToTask s).tryCastToSentence = .inl s := by
  simp [LSentence.castToTask, LTask.tryCastToSentence]

theorem lex_tryCast_task (k : LTask) :
    (k.budget.isEmpty = true → k.tryCastToSentence = .inl k.sentence) ∧
    (k.budget.isEmpty = false → k.tryCastToSentence = .inr k) := by
  unfold LTask.tryCastToSentence
  cases k.budget.isEmpty <;> simp

/-! ### `NarseseValue` wrapping / unwrapping (generic in the three carried types, as in Rust) -/

variable {T S K : Type}

theorem tryInto_matching (t : T) (s : S) (k : K) :
    (NValue.term t : NValue T S K).tryIntoTerm = .ok t ∧
    (NValue.sentence s : NValue T S K).tryIntoSentence = .ok s ∧
    (NValue.task k : NValue T S K).tryIntoTask = .ok k := ⟨rfl, rfl, rfl⟩

theorem tryInto_nonmatching (t : T) (s : S) (k : K) :
    (NValue.term t : NValue T S K).tryIntoSentence = .err ∧ (NValue.term t : NValue T S K).tryIntoTask = .err ∧
    (NValue.sentence s : NValue T S K).tryIntoTerm = .err ∧ (NValue.sentence s : NValue T S K).tryIntoTask = .err ∧
    (NValue.task k : NValue T S K).tryIntoTerm = .err ∧ (NValue.task k : NValue T S K).tryIntoSentence = .err :=
  ⟨rfl, rfl, rfl, rfl, rfl, rfl⟩

/-- `try_into_X(v)` is `Ok` exactly for the matching variant, and then returns what was wrapped -/
theorem tryInto_iff (v : NValue T S K) :
    (v.tryIntoTerm.isOk = v.isTerm) ∧ (v.tryIntoSentence.isOk = v.isSentence) ∧ (v.tryIntoTask.isOk = v.isTask) ∧
    (v.isTerm.toNat + v.isSentence.toNat + v.isTask.toNat = 1) := by
  cases v <;> simp [NValue.tryIntoTerm, NValue.tryIntoSentence, NValue.tryIntoTask, NValue.isTerm,
    NValue.isSentence, NValue.isTask, Res.isOk]

theorem taskCompatible (cast : S → K) (t : T) (s : S) (k : K) :
    (NValue.sentence s : NValue T S K).tryIntoTaskCompatible cast = .ok (cast s) ∧
    (NValue.task k : NValue T S K).tryIntoTaskCompatible cast = .ok k ∧
    (NValue.term t : NValue T S K).tryIntoTaskCompatible cast = .err := ⟨rfl, rfl, rfl⟩

theorem value_tryCast (tc : K → Sum S K) (v : NValue T S K) :
    match v with
    | .term t => v.tryCastToSentence tc = .inr (.term t)
    | .sentence s => v.tryCastToSentence tc = .inl (.sentence s)
    | .task k => (∀ s, tc k = .inl s → v.tryCastToSentence tc = .inl (.sentence s)) ∧
                 (∀ k', tc k = .inr k' → v.tryCastToSentence tc = .inr (.task k')) := by
  cases v with
  | term t => rfl
  | sentence s => rfl
  | task k =>
    constructor
    · intro s h; simp [NValue.tryCastToSentence, h]
    · intro k' h; simp [NValue.tryCastToSentence, h]

end Narsese.Props.C15
