/-
  C06 — term equality is semantic, order-insensitive where NAL says so, and stable.

  `sem` is the reference ("denote the same Narsese term"): same constructor, equal names / numbers,
  pointwise equal components for ordered compounds, images and asymmetric statements, mutual inclusion
  for the seven hash-set backed constructors, either operand order for the three symmetric statements.
  `eqImpl` is the model of the hand-written `PartialEq`, with `HashSet == HashSet` looking each element up
  BY ITS HASH (`feed`) and then by `==`. Values "as hash sets build them" (`built`) have set-like
  component lists that are duplicate-free modulo `sem`.
-/
import Proofs.SetBuild
set_option autoImplicit false

namespace Narsese.Props.C06
open Narsese

/-- **`==` is semantic equality** on every pair of values the API can build, at every nesting depth,
whatever hasher the sets use for their elements -/
theorem eq_is_semantic (h0 : List Tok → Nat) (a b : Term) (ha : built a = true) (hb : built b = true) :
    eqImpl h0 a b = sem a b := eqImpl_eq_sem h0 a b ha hb

/-- the reference relation is an equivalence relation (on ALL terms) -/
theorem sem_reflexive (t : Term) : sem t t = true := sem_refl t
theorem sem_symmetric (a b : Term) : sem a b = sem b a := sem_symm a b
theorem sem_transitive (a b c : Term) (h1 : sem a b = true) (h2 : sem b c = true) : sem a c = true :=
  sem_trans a b c h1 h2

/-- hence `==` itself is reflexive, symmetric and transitive on built values -/
theorem eq_equivalence (h0 : List Tok → Nat) (a b c : Term)
    (ha : built a = true) (hb : built b = true) (hc : built c = true) :
    eqImpl h0 a a = true ∧ eqImpl h0 a b = eqImpl h0 b a ∧
    (eqImpl h0 a b = true → eqImpl h0 b c = true → eqImpl h0 a c = true) := by
  rw [eq_is_semantic h0 a a ha ha, eq_is_semantic h0 a b ha hb, eq_is_semantic h0 b a hb ha,
    eq_is_semantic h0 b c hb hc, eq_is_semantic h0 a c ha hc]
  exact ⟨sem_refl a, sem_symm a b, sem_trans a b c⟩

/-- `==` does not depend on the hasher instance (per-instance random hashing is invisible) -/
theorem eq_hasher_independent (h0 h0' : List Tok → Nat) (a b : Term) (ha : built a = true) (hb : built b = true) :
    eqImpl h0 a b = eqImpl h0' a b := by
  rw [eq_is_semantic h0 a b ha hb, eq_is_semantic h0' a b ha hb]

/-- insertion order and duplicates are irrelevant: component lists denoting the same set build equal terms -/
theorem set_order_dup_irrelevant (k : SetK) (xs ys : List Term)
    (h1 : ∀ x ∈ xs, ∃ y ∈ ys, sem x y = true) (h2 : ∀ y ∈ ys, ∃ x ∈ xs, sem x y = true) :
    sem (.setlike k (Terms.ofList (mkSetSem xs))) (.setlike k (Terms.ofList (mkSetSem ys))) = true :=
  mkSet_order_dup_irrelevant k xs ys h1 h2

/-- in particular: any permutation, with any duplications, of the same components -/
theorem set_perm_dup (k : SetK) (xs ys : List Term) (h : ∀ t, t ∈ xs ↔ t ∈ ys) :
    sem (.setlike k (Terms.ofList (mkSetSem xs))) (.setlike k (Terms.ofList (mkSetSem ys))) = true :=
  mkSet_order_dup_irrelevant k xs ys (fun x hx => ⟨x, (h x).mp hx, sem_refl x⟩) (fun y hy => ⟨y, (h y).mpr hy, sem_refl y⟩)

/-- what the constructors build IS built, and the code's hash-based insertion equals de-duplication by `sem` -/
theorem constructors_build_built (k : SetK) (xs : List Term) (hx : ∀ x ∈ xs, built x = true) (h0 : List Tok → Nat) :
    built (.setlike k (Terms.ofList (mkSetSem xs))) = true ∧ mkSet h0 xs = mkSetSem xs :=
  ⟨mkSet_built k xs hx, mkSet_eq_mkSetSem h0 xs hx⟩

/-- symmetric statements: operands in either order -/
theorem symmetric_operands (k : BinK) (hk : k.symmetric = true) (a b : Term) :
    sem (.bin k a b) (.bin k b a) = true := by
  simp [sem, hk, sem_refl]

/-- asymmetric statements are NOT symmetric (witness) and the image index matters (witness) -/
example : sem (.bin .inh (.atom .word ['a']) (.atom .word ['b'])) (.bin .inh (.atom .word ['b']) (.atom .word ['a'])) = false := by decide
example : sem (.bin .equivPred (.atom .word ['a']) (.atom .word ['b'])) (.bin .equivPred (.atom .word ['b']) (.atom .word ['a'])) = false := by decide
example : sem (.image .ext 0 (.cons (.atom .word ['a']) .nil)) (.image .ext 1 (.cons (.atom .word ['a']) .nil)) = false := by decide
/-- non-vacuity: a nested built value with permuted sets on both sides -/
example :
    let a := Term.atom .word ['a']; let b := Term.atom .word ['b']
    let s1 := Term.setlike .extSet (.cons (.setlike .intSet (.cons a (.cons b .nil))) (.cons (.bin .sim a b) .nil))
    let s2 := Term.setlike .extSet (.cons (.bin .sim b a) (.cons (.setlike .intSet (.cons b (.cons a .nil))) .nil))
    built s1 = true ∧ built s2 = true ∧ sem s1 s2 = true := by decide

end Narsese.Props.C06
