/-
  C14 — component access, category and capacity of terms are mutually consistent.
-/
import NarseseModel.Api
import NarseseModel.Fold
set_option autoImplicit false

namespace Narsese.Props.C14
open Narsese

/-- the image iterator, started at running index `now ≤ idx`, yields the raw components with the
placeholder inserted at relative position `idx - now` (when that position exists) -/
theorem imageIter_general (idx : Nat) : ∀ (ts : List Term) (now : Nat), now ≤ idx → idx - now ≤ ts.length →
    imageIter idx now ts = ts.take (idx - now) ++ [.placeholder] ++ ts.drop (idx - now)
  | [], now, h1, h2 => by
    have : now = idx := by simp at h2; omega
    subst this; simp [imageIter]
  | t :: ts, now, h1, h2 => by
    by_cases h : now = idx
    · subst h
      simp only [imageIter, if_true, Nat.sub_self, List.take_zero, List.drop_zero, List.nil_append,
        List.cons_append, List.cons.injEq, true_and]
      -- after the placeholder the running index is past `idx`: the rest is yielded unchanged
      have rest : ∀ (us : List Term) (n : Nat), n > now → imageIter now n us = us := by
        intro us
        induction us with
        | nil => intro n hn; simp [imageIter]; omega
        | cons u us ih => intro n hn; simp [imageIter, Nat.ne_of_gt hn, ih (n + 1) (by omega)]
      exact rest ts (now + 2) (by omega)
    · have hlt : now < idx := by omega
      have ih := imageIter_general idx ts (now + 1) (by omega) (by simp at h2; omega)
      have e : idx - now = (idx - (now + 1)) + 1 := by omega
      simp only [imageIter, h, if_false, ih, e, List.take_succ_cons, List.drop_succ_cons, List.cons_append]

/-- **placeholder at its recorded index**: for `i ≤ |ts|` the iterator yields
`t₁..tᵢ, _, tᵢ₊₁..tₙ` -/
theorem imageIterator_eq_insert (i : Nat) (ts : List Term) (h : i ≤ ts.length) :
    imageIter i 0 ts = ts.take i ++ [.placeholder] ++ ts.drop i := by
  simpa using imageIter_general i ts 0 (Nat.zero_le _) (by simpa using h)

/-- well-formed: every image index is at most the number of components (all nesting levels are
irrelevant here: the accessors look at one level) -/
def wfTop : Term → Bool
  | .image _ i ts => i ≤ ts.length
  | _ => true

/-- **consuming extraction = borrowing accessor including the placeholder**, same order -/
theorem extract_eq_components (t : Term) (h : wfTop t = true) :
    t.extract = .ok t.componentsWithPlaceholder := by
  cases t with
  | image k i ts =>
    have hi : i ≤ ts.toList.length := by simpa [wfTop, Terms.length_toList] using h
    simp [Term.extract, Term.vecInsert, Term.componentsWithPlaceholder, hi, imageIterator_eq_insert i ts.toList hi]
  | _ => rfl

/-- extraction never panics on a well-formed term, and only an out-of-range image index can make it panic -/
theorem extract_total_iff (t : Term) : t.extract = .panic ↔ wfTop t = false := by
  cases t <;> simp [Term.extract, Term.vecInsert, wfTop, Terms.length_toList]

/-- **the placeholder-free accessor = the other one minus the placeholder at the index** -/
theorem components_eq_erase (k : ImgK) (i : Nat) (ts : Terms) (h : i ≤ ts.length) :
    (Term.image k i ts).componentsWithPlaceholder.eraseIdx i = (Term.image k i ts).components ∧
    (Term.image k i ts).componentsWithPlaceholder[i]? = some .placeholder ∧
    (Term.image k i ts).componentsWithPlaceholder.length = ts.length + 1 := by
  have hi : i ≤ ts.toList.length := by simpa [Terms.length_toList] using h
  simp only [Term.componentsWithPlaceholder, Term.components, imageIterator_eq_insert i ts.toList hi]
  refine ⟨?_, ?_, ?_⟩
  · have hl : (ts.toList.take i).length = i := by simp [List.length_take, Nat.min_eq_left hi]
    rw [List.append_assoc, List.eraseIdx_append_of_length_le (by omega)]
    simp [hl]
  · have hl : (ts.toList.take i).length = i := by simp [List.length_take, Nat.min_eq_left hi]
    rw [List.append_assoc, List.getElem?_append_right (by omega)]
    simp [hl]
  · simp [List.length_take, Nat.min_eq_left hi, Terms.length_toList]; omega

theorem nonimage_accessors_agree (t : Term) (h : ∀ k i ts, t ≠ .image k i ts) :
    t.componentsWithPlaceholder = t.components := by
  cases t <;> simp_all [Term.componentsWithPlaceholder]

/-- exactly one of atom / compound / statement -/
theorem category_trichotomy (t : Term) :
    t.isAtom.toNat + t.isCompound.toNat + t.isStatement.toNat = 1 := by
  unfold Term.isAtom Term.isCompound Term.isStatement
  cases t.category <;> decide

/-- capacity class vs component count and orderedness -/
theorem capacity_spec (t : Term) :
    (t.capacity = .atom ↔ t.isAtom = true) ∧
    (t.capacity = .atom ∨ t.capacity = .unary → t.components.length = 1) ∧
    (t.capacity = .binaryVec ∨ t.capacity = .binarySet → t.components.length = 2) ∧
    (t.capacity = .binarySet → ∃ k a b, t = .bin k a b ∧ k.symmetric = true) ∧
    (t.capacity = .set ↔ ∃ k ts, t = .setlike k ts) ∧
    (t.capacity = .vec ↔ (∃ k ts, t = .seqlike k ts) ∨ ∃ k i ts, t = .image k i ts) := by
  cases t with
  | bin k a b =>
    cases hk : k.symmetric <;>
      simp [Term.capacity, Term.isAtom, Term.category, Term.components, hk]
    all_goals (split <;> simp)
  | _ => simp [Term.capacity, Term.isAtom, Term.category, Term.components]

/-- lexical terms: extraction returns the stored components -/
theorem lex_extract (x : LTerm) :
    (∀ c ts, x = .compound c ts → x.extract = ts.toList) ∧ (∀ l ts r, x = .set l ts r → x.extract = ts.toList) ∧
    (∀ c s p, x = .stmt c s p → x.extract = [s, p]) ∧ (∀ p n, x = .atom p n → x.extract = [x]) := by
  refine ⟨?_, ?_, ?_, ?_⟩ <;> intros <;> subst_vars <;> rfl

theorem buildAtom_category (hd : EFormat.AtomHead) (name : Str) (v : Term) (h : EFormat.buildAtom hd name = .ok v) :
    v.category = .atom := by
  cases hd with
  | named k => simp [EFormat.buildAtom] at h; subst h; rfl
  | placeholder => simp [EFormat.buildAtom] at h; subst h; rfl
  | interval =>
    simp only [EFormat.buildAtom] at h
    split at h
    · injection h with h; subst h; rfl
    · simp at h

theorem buildCompound_category (ck : EFormat.ConnK) (ts : List Term) (v : Term)
    (hk : ∀ k, ck = .diff k → k.isStatement = false)
    (h : EFormat.buildCompound ck ts = .ok v) : v.category = .compound := by
  cases ck with
  | set k => simp [EFormat.buildCompound] at h; subst h; rfl
  | seq k => simp [EFormat.buildCompound] at h; subst h; rfl
  | diff k =>
    simp only [EFormat.buildCompound] at h
    split at h
    · injection h with h; subst h
      simp [Term.category, hk k rfl]
    · simp at h
  | img k =>
    simp only [EFormat.buildCompound, newImage] at h
    split at h
    · split at h
      · simp at h
      · injection h with h; subst h; rfl
    · simp at h
  | neg =>
    simp only [EFormat.buildCompound] at h
    split at h
    · injection h with h; subst h; rfl
    · simp at h
  | operatorUnsupported => simp [EFormat.buildCompound] at h

/-- **the category of a lexical term equals the category of the enum term it folds to** -/
theorem lexCategory_fold (F : EFormat) (x : LTerm) (v : Term) (h : F.foldTerm x = .ok v) :
    x.category = v.category := by
  cases x with
  | atom pre name =>
    simp only [EFormat.foldTerm, EFormat.foldAtom] at h
    split at h
    · exact (buildAtom_category _ _ _ h).symm
    · simp at h
  | compound conn ts =>
    simp only [EFormat.foldTerm] at h
    split at h
    · simp only [EFormat.foldCompound] at h
      split at h
      · next kw ck hfind =>
        refine (buildCompound_category ck _ _ ?_ h).symm
        intro k hk
        have := List.mem_of_find?_eq_some hfind
        subst hk
        simp [EFormat.foldConnTable] at this
        rcases this with h | h <;> (rw [h.2]; rfl)
      · simp at h
    all_goals simp at h
  | set l ts r =>
    simp only [EFormat.foldTerm] at h
    split at h
    · simp only [EFormat.foldSet] at h
      split at h
      · injection h with h; subst h; rfl
      · simp at h
    all_goals simp at h
  | stmt cop s p =>
    simp only [EFormat.foldTerm] at h
    split at h
    · split at h
      · simp only [EFormat.foldStatement] at h
        split at h
        · next kw ck hfind =>
          injection h with h; subst h
          have hm := List.mem_of_find?_eq_some hfind
          cases ck with
          | plain k =>
            simp [EFormat.copulaTable] at hm
            have : k.isStatement = true := by
              rcases hm with h|h|h|h|h|h|h|h|h <;> (rw [h.2]; rfl)
            simp [EFormat.CopK.build, LTerm.category, Term.category, this]
          | _ => simp [EFormat.CopK.build, LTerm.category, Term.category, BinK.isStatement]
        · simp at h
      all_goals simp at h
    all_goals simp at h

end Narsese.Props.C14
