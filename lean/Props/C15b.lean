/-
  C15 (corollaries of the whole-value round trip, `C01c.lean`) — classification survives print-then-parse.

  PROVED for every format satisfying the decidable side conditions (the three shipped ones are decided in
  `C01c.lean`) and every well-formed value, any size:
  * `kind (parse (format v)) = kind v` for terms, sentences and tasks;
  * a sentence cast to a task prints to a string that parses to a TASK with an empty budget — never to the
    bare sentence — and converting that task back yields the original sentence.
-/
import Props.C01c
import Props.C15
set_option autoImplicit false

namespace Narsese.Props.C15
open Narsese EFormat

/-- `kind(parse(format(v))) = kind(v)` -/
theorem kind_roundtrip (F : EFormat) (hI : ItemsOK F) (v : Narsese) (hwf : wfN F v = true)
    (htop : topN F v = true) : (F.eparse (F.fmtNarsese v)).map NValue.kind = .ok v.kind :=
  Props.C01.roundtrip_kind F hI v hwf htop

/-- the empty budget is always printed with its brackets: a sentence cast to a task reads back as a task -/
theorem cast_format_parse_is_task (F : EFormat) (hI : ItemsOK F) (s : Sentence) (hwf : wfSentence F s = true) :
    F.eparse (F.fmtTask s.castToTask) = .ok (.task { sentence := s, budget := .empty }) := by
  have : wfTask F s.castToTask = true := by
    simp only [wfTask, Sentence.castToTask, hwf, wfBudget, Budget.components, List.all_nil, Bool.and_self]
  exact eparse_fmt_task hI s.castToTask this

/-- … and never as the bare sentence -/
theorem cast_format_parse_not_sentence (F : EFormat) (hI : ItemsOK F) (s : Sentence) (hwf : wfSentence F s = true) :
    F.eparse (F.fmtTask s.castToTask) ≠ .ok (.sentence s) := by
  rw [cast_format_parse_is_task F hI s hwf]
  intro h
  cases h

/-- casting the parsed task back gives the sentence that was printed -/
theorem cast_format_parse_cast_back (F : EFormat) (hI : ItemsOK F) (s : Sentence) (hwf : wfSentence F s = true) :
    (F.eparse (F.fmtTask s.castToTask)).map (fun v => v.tryCastToSentence Task.tryCastToSentence) =
      .ok (.inl (.sentence s)) := by
  rw [cast_format_parse_is_task F hI s hwf]
  rfl

/-- instances for the three shipped formats -/
theorem cast_format_parse_is_task_shipped (s : Sentence) :
    (wfSentence Gen.asciiE s = true → Gen.asciiE.eparse (Gen.asciiE.fmtTask s.castToTask) = .ok (.task ⟨s, .empty⟩)) ∧
    (wfSentence Gen.latexE s = true → Gen.latexE.eparse (Gen.latexE.fmtTask s.castToTask) = .ok (.task ⟨s, .empty⟩)) ∧
    (wfSentence Gen.hanE s = true → Gen.hanE.eparse (Gen.hanE.fmtTask s.castToTask) = .ok (.task ⟨s, .empty⟩)) :=
  ⟨cast_format_parse_is_task _ Props.C01.itemsOK_ascii s, cast_format_parse_is_task _ Props.C01.itemsOK_latex s,
   cast_format_parse_is_task _ Props.C01.itemsOK_han s⟩

end Narsese.Props.C15
