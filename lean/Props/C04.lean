/-
  C04 — the enum parser is total: every input yields Ok or Err.

  Modelled: every Rust slice / index / unwrap of `impl_enum/parser.rs` as an operation that can return
  `panic`, every loop and recursion with fuel. PROVED AT FULL STRENGTH (file `C04b.lean`, which imports
  the totality development): for every input string — unbounded length and nesting — and every format
  whose loop keywords are non-empty (all three shipped ones), every entry point returns `Ok` or `Err`:
  no panic, and the fuel the entry points supply (linear in the input) is never exhausted, i.e. the
  Rust loops terminate because every successful consume step advances the cursor.
  This file holds the basic facts (error construction never panics, etc.).
-/
import NarseseModel.EParser
set_option autoImplicit false

namespace Narsese.Props.C04
open Narsese EFormat

/-- **error construction never panics** (after the D3 repair): for every input length and every head
position — including a head that ran past the end — the context window `env[left..right]` is a valid slice -/
theorem windowOk_always (len head : Nat) : windowOk len head = true := by
  unfold windowOk
  simp only [Bool.and_eq_true, decide_eq_true_eq]
  split <;> split <;> omega

theorem raise_never_panics {α : Type} (c : Cur) : (raise c : PRes α) = .err c := by
  simp [raise, windowOk_always]

/-- the error can always be displayed: `Display` only formats the stored message, index and window -/
theorem eagerErr_ok {α : Type} (c : Cur) (a : α) : eagerErr c a = .ok a := by
  simp [eagerErr, windowOk_always]

/-- neither a panic nor an exhausted fuel -/
def Safe {α : Type} (r : PRes α) : Prop := r ≠ .panic ∧ r ≠ .fuel

theorem consumePunct_safe (F : EFormat) (c : Cur) : Safe (F.consumePunct c) := by
  unfold consumePunct Safe
  simp only [raise_never_panics]
  repeat' split
  all_goals simp

/-- the stand-alone punctuation parser is total -/
theorem punctDoor_total (F : EFormat) (input : Str) : (F.parsePunctDoor input).total = true := by
  unfold parsePunctDoor
  have hs := consumePunct_safe F (Cur.ofEnv input)
  cases h : F.consumePunct (Cur.ofEnv input) <;> simp_all [Safe, eagerErr_ok, PRes.toRes, Res.total]

/-- the integer reader of fixed stamps is total -/
theorem parseIsizeAt_safe (c : Cur) : Safe (parseIsizeAt c) := by
  unfold parseIsizeAt Safe
  simp only [raise_never_panics]
  repeat' split
  all_goals simp

theorem consumeStamp_safe (F : EFormat) (c : Cur) : Safe (F.consumeStamp c) := by
  unfold consumeStamp
  simp only [raise_never_panics]
  split
  · have hs := parseIsizeAt_safe (F.skipAndSpaces (F.skipAndSpaces c F.stampL) F.stampFixed)
    cases h : parseIsizeAt (F.skipAndSpaces (F.skipAndSpaces c F.stampL) F.stampFixed) <;> simp_all [Safe]
  · repeat' split
    all_goals simp [Safe]

/-- the stand-alone stamp parser is total -/
theorem stampDoor_total (F : EFormat) (input : Str) : (F.parseStampDoor input).total = true := by
  unfold parseStampDoor
  split
  · rfl
  · have hs := consumeStamp_safe F (Cur.ofEnv input)
    cases h : F.consumeStamp (Cur.ofEnv input) <;> simp_all [Safe, eagerErr_ok, PRes.toRes, Res.total]

/-- `transform_mid_result` never unwraps an empty slot: it is `Ok` or `Err` for every slot combination -/
theorem transformMid_total (c : Cur) (m : Mid) : (transformMid c m).toRes.total = true := by
  unfold transformMid
  simp only [raise_never_panics]
  repeat' split
  all_goals simp [PRes.toRes, Res.total]

example : windowOk 3 99 = true ∧ windowOk 0 0 = true ∧ windowOk 10 5 = true := by decide

end Narsese.Props.C04
