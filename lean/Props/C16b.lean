/-
  C16 (main theorems) — the Typst rendering is unambiguous (terms: `typst_term_injective`; whole values —
  terms, sentences, tasks, also across kinds — `typst_injective`).

  PROVED (all sizes): for the markup constants regenerated from the crate (`Gen.typstC`; the needed facts
  about them — which constants begin and end with a space, whose first words differ — are decidable and
  decided below), two well-formed terms with the same Typst text are THE SAME term (same constructors,
  same components in the same printed order, same names and numbers):

      typst(t) = typst(u)  ⇒  t = u          (`typst_term_injective`)

  which is stronger than the property's "not semantically equal ⇒ different text". Well-formed (`wfTy`):
  names consist of characters `{:?}` prints unchanged and contain no whitespace (what the enum parsers can
  produce), intervals fit the machine word, compounds are non-empty, image indexes in range and image
  components placeholder-free.
  Method (`Proofs/Typst/*`): `post_process_whitespace` keeps the WORDS of a string (`words_post`); the words
  of a rendering are a structurally recursive token serialization (`words_raw`); a decoder inverts that
  serialization (`dec_ser`: prefix / infix compound forms, bracket sets, statements, atoms), hence it is
  injective.
-/
import Proofs.Typst.ValueInj
import NarseseModel.Gen.Formats
import Props.C16
import Props.C01b
set_option autoImplicit false

namespace Narsese.Props.C16
open Narsese TypstConsts

/-- the facts about the crate's markup constants (re-decided on the regenerated table) -/
theorem typstOK_crate : TypstOK Gen.typstC := ⟨by decide +kernel, by decide +kernel, by decide +kernel⟩

/-- **Typst rendering of terms is injective**, for every table of constants satisfying `TypstOK` -/
theorem typst_term_injective_gen (C : TypstConsts) (hT : TypstOK C) (t u : Term) (ht : wfTy C t = true)
    (hu : wfTy C u = true) (h : C.typstTerm t = C.typstTerm u) : t = u :=
  typstTerm_injective hT t u ht hu h

/-- … for the crate's constants -/
theorem typst_term_injective (t u : Term) (ht : wfTy Gen.typstC t = true) (hu : wfTy Gen.typstC u = true)
    (h : Gen.typstC.typstTerm t = Gen.typstC.typstTerm u) : t = u :=
  typstTerm_injective typstOK_crate t u ht hu h

/-- contrapositive, as the property states it: semantically different terms render differently -/
theorem typst_distinguishes (t u : Term) (ht : wfTy Gen.typstC t = true) (hu : wfTy Gen.typstC u = true)
    (hne : t ≠ u) : Gen.typstC.typstTerm t ≠ Gen.typstC.typstTerm u :=
  fun h => hne (typst_term_injective t u ht hu h)

/-- the words of a rendering are its token serialization; the decoder reads it back -/
theorem typst_words (t : Term) (ht : wfTy Gen.typstC t = true) :
    Gen.typstC.words (Gen.typstC.typstTerm t) = ser Gen.typstC t := by
  simp only [typstTerm, words_post]
  exact words_raw typstOK_crate.layout typstOK_crate.digits t ht

theorem typst_decodes (t : Term) (ht : wfTy Gen.typstC t = true) :
    decT Gen.typstC (tb t) (Gen.typstC.words (Gen.typstC.typstTerm t)) = some (t, []) := by
  rw [typst_words t ht]
  have := dec_ser typstOK_crate t ht (tb t) [] (Nat.le_refl _)
  simpa using this

/-- the sentence-level facts about the constants (re-decided on the regenerated table) -/
theorem typstItemsOK_crate : TypstItemsOK Gen.typstC := ⟨typstOK_crate, by decide +kernel⟩

/-- **Typst rendering of whole values is injective**: two well-formed terms, sentences or tasks — of the same or
of different kinds — with the same Typst text are the same value -/
theorem typst_injective (v w : Narsese) (hv : wfTyN Gen.typstC v = true) (hw : wfTyN Gen.typstC w = true)
    (h : typstN Gen.typstC v = typstN Gen.typstC w) : v = w :=
  typstN_injective typstItemsOK_crate v w hv hw h

theorem typst_injective_gen (C : TypstConsts) (hV : TypstItemsOK C) (v w : Narsese) (hv : wfTyN C v = true)
    (hw : wfTyN C w = true) (h : typstN C v = typstN C w) : v = w :=
  typstN_injective hV v w hv hw h

/-! ### the stand-alone renderings of the items (the property names each of them) -/

section items
open TypstConsts

theorem typst_punct_injective (p q : Punct) (h : Gen.typstC.typstPunct p = Gen.typstC.typstPunct q) : p = q := by
  have h' := congrArg Gen.typstC.words h
  simp only [typstPunct, words_post] at h'
  exact (punct_inj typstItemsOK_crate p q [] [] (by simpa [serPunct] using h')).1

theorem typst_stamp_injective (s1 s2 : Stamp) (h1 : wfStamp s1 = true) (h2 : wfStamp s2 = true)
    (h : Gen.typstC.typstStamp s1 = Gen.typstC.typstStamp s2) : s1 = s2 := by
  have h' := congrArg Gen.typstC.words h
  simp only [typstStamp, words_post, words_stamp typstItemsOK_crate] at h'
  exact (stamp_inj typstItemsOK_crate s1 s2 h1 h2 [] [] (by rw [h'])).1

theorem typst_truth_injective (a b : Truth) (ha : wfTruth a = true) (hb : wfTruth b = true)
    (h : Gen.typstC.typstTruth a = Gen.typstC.typstTruth b) : a = b := by
  have h' := congrArg Gen.typstC.words h
  simp only [typstTruth, words_post, words_truth typstItemsOK_crate _ ha, words_truth typstItemsOK_crate _ hb] at h'
  exact truth_inj typstItemsOK_crate a b ha hb h'

theorem typst_budget_injective (a b : Budget) (ha : wfBudget a = true) (hb : wfBudget b = true)
    (h : Gen.typstC.typstBudget a = Gen.typstC.typstBudget b) : a = b := by
  have h' := congrArg Gen.typstC.words h
  simp only [typstBudget, words_post, words_budget typstItemsOK_crate _ ha, words_budget typstItemsOK_crate _ hb] at h'
  exact (budget_inj typstItemsOK_crate a b ha hb [] [] (by simpa using h')).1

end items

/-- non-vacuity: the C01 sample values are well-formed for the renderer -/
example : wfTyN Gen.typstC (.term C01.sample) = true := by decide +kernel

/-- necessity of the name condition: a name with a doubled space and one with a single space collide
(whitespace inside a name is squeezed by the post-processing) -/
example : Gen.typstC.typstTerm (.atom .word "a  b".toList) = Gen.typstC.typstTerm (.atom .word "a b".toList) := by
  decide +kernel

end Narsese.Props.C16
