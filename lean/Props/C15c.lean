/-
  C15 / C04 (the mid-result side door): `parse::<NarseseOptions<…>>` returns the slots `build_mid_result` fills;
  `has_task` / `has_sentence` on them classify the input exactly as the whole-value parser does — the kind of
  `parse(s)` IS a function of the filled slots — and the door is total like the other entry points.
-/
import Proofs.EParseTotal
import NarseseModel.EDoors
set_option autoImplicit false

namespace Narsese.Props.C15
open Narsese EFormat

/-- whenever the whole-value parser succeeds, the slot door succeeds, and the value's kind is the slots' kind:
task iff budget, term and punctuation are present; sentence iff term and punctuation but no budget; term otherwise -/
theorem mid_door_kind (F : EFormat) (s : Str) (v : Narsese) (h : F.eparse s = .ok v) :
    ∃ m, F.parseMidDoor s = .ok m ∧ v.kind = m.kind ∧ m.term.isSome = true := by
  unfold eparse runState at h
  unfold parseMidDoor
  cases hr : F.buildMid (midFuel (Cur.ofEnv s)) (Cur.ofEnv s) {} with
  | ok p =>
    obtain ⟨c, m⟩ := p
    rw [hr] at h
    simp only at h
    refine ⟨m, by simp [PRes.toRes], ?_⟩
    unfold transformMid at h
    cases ht : m.term with
    | none =>
      exfalso
      simp only [ht, raise] at h
      by_cases hw : windowOk c.len c.head = true <;> simp [hw, PRes.toRes] at h
    | some t =>
      cases hp : m.punct with
      | none =>
        simp only [ht, hp, PRes.toRes] at h
        have : v = .term t := by simpa using (Res.ok.inj h).symm
        subst this
        simp [NValue.kind, Mid.kind, Mid.hasTask, Mid.hasSentence, ht, hp]
      | some p =>
        cases hb : m.budget with
        | none =>
          simp only [ht, hp, hb, PRes.toRes] at h
          have := (Res.ok.inj h).symm
          subst this
          simp [NValue.kind, Mid.kind, Mid.hasTask, Mid.hasSentence, ht, hp, hb]
        | some b =>
          simp only [ht, hp, hb, PRes.toRes] at h
          have := (Res.ok.inj h).symm
          subst this
          simp [NValue.kind, Mid.kind, Mid.hasTask, Mid.hasSentence, ht, hp, hb]
  | err e => rw [hr] at h; simp [PRes.toRes] at h
  | panic => rw [hr] at h; simp [PRes.toRes] at h
  | fuel => rw [hr] at h; simp [PRes.toRes] at h

/-- the slot door is total: `Ok` or `Err` on every input -/
theorem mid_door_total (F : EFormat) (hs : SaneAll F) (input : Str) : (F.parseMidDoor input).total = true := by
  unfold parseMidDoor
  have g := buildMid_good F hs (midFuel (Cur.ofEnv input)) (Cur.ofEnv input) {}
  cases hr : F.buildMid (midFuel (Cur.ofEnv input)) (Cur.ofEnv input) {} with
  | ok p => obtain ⟨c, m⟩ := p; simp [PRes.toRes, Res.total]
  | err h => simp [PRes.toRes, Res.total]
  | panic => exact absurd hr g.1
  | fuel => exact absurd hr (g.2 (by simp [midFuel, Cur.n]))

/-- `has_task` implies `has_sentence`; the kind is 2 / 1 / 0 accordingly -/
theorem mid_kind_cases (m : Mid) : (m.hasTask = true → m.hasSentence = true) ∧ m.kind ≤ 2 := by
  refine ⟨?_, ?_⟩
  · simp only [Mid.hasTask, Mid.hasSentence, Bool.and_eq_true]; intro h; exact ⟨h.1.2, h.2⟩
  · simp only [Mid.kind]
    split
    · omega
    · split <;> omega

end Narsese.Props.C15
