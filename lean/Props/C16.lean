/-
  C16 — Typst rendering is total, whitespace-normalised and unambiguous.

  Proved here: `post_process_whitespace` puts ANY string into normal form (no leading / trailing /
  doubled whitespace), hence so is every rendering (all of them end with it); rendering is a total
  function of the model (structural recursion, no partial operation); the markup constants that
  distinguish constructors are pairwise distinct in the table generated from the crate.
  Remaining obligation: `typst_injective` (two semantically different values never render to the same
  text) — DESIGN.md §6; covered by exact-text correspondence and the collision search of the oracle.
-/
import NarseseModel.Typst
import NarseseModel.Gen.Formats
set_option autoImplicit false

namespace Narsese.Props.C16
open Narsese TypstConsts

variable (C : TypstConsts)

/-- no two adjacent whitespace characters -/
def adjOK : Str → Bool
  | [] => true
  | [_] => true
  | a :: b :: r => !(C.isWs a && C.isWs b) && adjOK (b :: r)

/-- whitespace normal form: empty, or starts and ends with a non-whitespace char and has no doubled whitespace -/
def Normal (s : Str) : Prop :=
  (∀ c, s.head? = some c → C.isWs c = false) ∧ (∀ c, s.getLast? = some c → C.isWs c = false) ∧ adjOK C s = true

theorem dropWs_head (s : Str) (c : Char) (h : (C.dropWs s).head? = some c) : C.isWs c = false := by
  induction s with
  | nil => simp [dropWs] at h
  | cons x xs ih =>
    simp only [dropWs] at h
    split at h
    · exact ih h
    · simp at h; subst h; simp_all

theorem dropWs_suffix (s : Str) : ∃ pre, s = pre ++ C.dropWs s := by
  induction s with
  | nil => exact ⟨[], rfl⟩
  | cons x xs ih =>
    simp only [dropWs]
    split
    · obtain ⟨pre, hp⟩ := ih
      exact ⟨x :: pre, by simp [← hp]⟩
    · exact ⟨[], rfl⟩

theorem trim_head (s : Str) (c : Char) (h : (C.trim s).head? = some c) : C.isWs c = false := by
  unfold trim at h
  obtain ⟨pre, hp⟩ := dropWs_suffix C (C.dropWs s).reverse
  -- `dropWs s = (dropWs (dropWs s).reverse).reverse ++ pre.reverse`
  have hu : C.dropWs s = (C.dropWs (C.dropWs s).reverse).reverse ++ pre.reverse := by
    have := congrArg List.reverse hp
    simpa using this
  apply dropWs_head C s c
  rw [hu]
  cases ht : (C.dropWs (C.dropWs s).reverse).reverse with
  | nil => rw [ht] at h; simp at h
  | cons y ys => rw [ht] at h; simpa using h

theorem trim_last (s : Str) (c : Char) (h : (C.trim s).getLast? = some c) : C.isWs c = false := by
  unfold trim at h
  rw [List.getLast?_reverse] at h
  exact dropWs_head C _ c h

theorem squeeze_adj : ∀ (cs : Str) (prev p : Char), (p = prev ∨ (C.isWs p = true ∧ C.isWs prev = true)) →
    adjOK C (p :: C.squeeze prev cs) = true
  | [], _, _, _ => by simp [squeeze, adjOK]
  | c :: cs, prev, p, h => by
    simp only [squeeze]
    split
    · next hb =>
      simp only [Bool.and_eq_true] at hb
      apply squeeze_adj cs c p
      rcases h with h | h
      · subst h; exact .inr ⟨hb.1, hb.2⟩
      · exact .inr ⟨h.1, hb.2⟩
    · next hb =>
      simp only [adjOK, Bool.and_eq_true, Bool.not_eq_true']
      refine ⟨?_, squeeze_adj cs c c (.inl rfl)⟩
      rcases h with h | h
      · subst h; simpa using hb
      · simp only [Bool.and_eq_true, not_and, Bool.not_eq_true] at hb
        simp [hb h.2]

theorem squeeze_last : ∀ (cs : Str) (prev l : Char), cs.getLast? = some l → C.isWs l = false →
    (C.squeeze prev cs).getLast? = some l
  | [], _, _, h, _ => by simp at h
  | [c], prev, l, h, hl => by
    simp at h; subst h
    simp [squeeze, hl]
  | c :: c' :: r, prev, l, h, hl => by
    have h' : (c' :: r).getLast? = some l := by simpa [List.getLast?_cons_cons] using h
    rw [show C.squeeze prev (c :: c' :: r) =
      (if C.isWs prev && C.isWs c then C.squeeze c (c' :: r) else c :: C.squeeze c (c' :: r)) from rfl]
    split
    · exact squeeze_last (c' :: r) c l h' hl
    · have ih := squeeze_last (c' :: r) c l h' hl
      generalize hs : C.squeeze c (c' :: r) = sq at ih
      cases sq with
      | nil => simp at ih
      | cons y ys => simpa [List.getLast?_cons_cons] using ih

/-- **`post_process_whitespace` normalises every string** -/
theorem post_normal (s : Str) : Normal C (C.post s) := by
  unfold post
  cases ht : C.trim s with
  | nil => exact ⟨by simp, by simp, rfl⟩
  | cons c cs =>
    have hhead := trim_head C s c (by rw [ht]; rfl)
    refine ⟨by intro x hx; simp at hx; subst hx; exact hhead, ?_, squeeze_adj C cs c c (.inl rfl)⟩
    intro x hx
    simp only at hx
    cases cs with
    | nil => simp [squeeze] at hx; subst hx; exact hhead
    | cons d ds =>
      have hl : (c :: d :: ds).getLast? = (d :: ds).getLast? := List.getLast?_cons_cons
      have hlast := trim_last C s
      rw [ht, hl] at hlast
      cases hg : (d :: ds).getLast? with
      | none => simp at hg
      | some l =>
        have hwl := hlast l hg
        have := squeeze_last C (d :: ds) c l hg hwl
        generalize hs : C.squeeze c (d :: ds) = sq at this hx
        cases sq with
        | nil => simp at this
        | cons y ys =>
          rw [List.getLast?_cons_cons, this] at hx
          injection hx with hx; subst hx; exact hwl

/-- every rendering entry point ends with the post-processing, so every output is in normal form -/
theorem typst_normal :
    (∀ t, Normal C (C.typstTerm t)) ∧ (∀ s, Normal C (C.typstSentence s)) ∧ (∀ k, Normal C (C.typstTask k)) ∧
    (∀ x, Normal C (C.typstTruth x)) ∧ (∀ x, Normal C (C.typstBudget x)) ∧ (∀ x, Normal C (C.typstStamp x)) ∧
    (∀ x, Normal C (C.typstPunct x)) :=
  ⟨fun _ => post_normal C _, fun _ => post_normal C _, fun _ => post_normal C _, fun _ => post_normal C _,
   fun _ => post_normal C _, fun _ => post_normal C _, fun _ => post_normal C _⟩

/-- the constants that tell constructors apart are pairwise distinct in the crate's table
(a duplicated constant would make two different values collide) -/
def distinct {α : Type} [DecidableEq α] : List α → Bool
  | [] => true
  | x :: xs => !xs.contains x && distinct xs

theorem consts_distinct :
    let C := Gen.typstC
    distinct [C.cExtInt, C.cIntInt, C.cExtDiff, C.cIntDiff, C.cProduct, C.cExtImg, C.cIntImg, C.cConj, C.cDisj,
              C.cNeg, C.cSeqConj, C.cParConj] = true ∧
    distinct [C.copInh, C.copSim, C.copImpl, C.copEquiv, C.copImplPred, C.copImplConc, C.copImplRetro,
              C.copEquivPred, C.copEquivConc] = true ∧
    distinct [C.preWord, C.prePlaceholder, C.preIVar, C.preDVar, C.preQVar, C.preInterval, C.preOperator] = true ∧
    distinct [C.brCompound, C.brExtSet, C.brIntSet, C.brStatement] = true ∧
    distinct [C.pJudgement, C.pGoal, C.pQuestion, C.pQuest] = true ∧
    distinct [C.stampPast, C.stampPresent, C.stampFuture, C.stampFixed] = true := by decide +kernel

example : Normal Gen.typstC (Gen.typstC.post "  a   b \t c  ".toList) := post_normal _ _

end Narsese.Props.C16
