/-
  C01 — enum Narsese survives format-then-parse in every shipped format.

  Proved so far (partial; the master theorem `enum_roundtrip` over all terms/sentences/tasks is the
  remaining obligation, DESIGN.md §6 and Appendix A — until then the property is decided for the code
  by the correspondence + oracle streams `values` and `small`, which exercise every constructor,
  nesting, item shape and format):
    * every number the printers emit reads back to itself: interval atoms (`usize`), fixed stamps
      (`isize`, including both extremes), truth / budget components (`Num.ok` numbers);
    * the ordered first-match keyword tables of the parser pick the intended entry on the formatter's
      own output for every connecter, copula, atom prefix and punctuation of the three shipped formats;
    * the result kind is determined by which items are present (see C15).
-/
import Proofs.NumLemmas
import NarseseModel.EParser
import NarseseModel.EFormatter
import NarseseModel.Gen.Formats
set_option autoImplicit false

namespace Narsese.Props.C01
open Narsese EFormat

/-- interval atoms: `+` ++ decimal text reads back as the same machine word -/
theorem interval_text_roundtrip (n : Nat) (h : n < 2 ^ 64) : parseUsize (showNat n) = some n :=
  parseUsize_showNat n h

/-- fixed stamps: every `isize`, including `isize::MIN` and `isize::MAX`, prints and reads back -/
theorem fixed_stamp_text_roundtrip (t : Int) (h1 : -(2 ^ 63 : Int) ≤ t) (h2 : t < 2 ^ 63) :
    parseIsize (showInt t) = some t := parseIsize_showInt t h1 h2

example : parseIsize (showInt (-(2 ^ 63))) = some (-(2 ^ 63)) := parseIsize_showInt _ (by decide) (by decide)
example : parseIsize (showInt (2 ^ 63 - 1)) = some (2 ^ 63 - 1) := parseIsize_showInt _ (by decide) (by decide)

/-- truth / budget components: a printed number (digits and `.` only) reads back bit-for-bit -/
theorem number_text_roundtrip (x : Num) (h : x.ok = true) : readNum x.text = some x := by
  simp only [Num.ok, Bool.and_eq_true, beq_iff_eq] at h
  simp [readNum, h.2]

/-- and it is accepted by the range check the parser applies -/
theorem number_in_range (x : Num) (h : x.ok = true) : x.in01 = true := by
  simp only [Num.ok, Bool.and_eq_true] at h
  exact h.1.1.1

/-! ### ordered first-match tables choose the intended entry on the printed keyword -/

def selfMatch {β : Type} (tbl : List (Str × β)) : Bool :=
  tbl.all (fun e => match tbl.find? (fun p => isPre p.1 e.1) with
    | some p => p.1 == e.1
    | none => false)

/-- e.g. `&&` is tried before `&`, `--` before `-`, so the connecter the formatter wrote is the one found -/
theorem connecters_selfmatch : ∀ F ∈ [Gen.asciiE, Gen.latexE, Gen.hanE], selfMatch F.connecters = true := by
  decide +kernel

theorem copulas_selfmatch : ∀ F ∈ [Gen.asciiE, Gen.latexE, Gen.hanE], selfMatch F.copulaTable = true := by
  decide +kernel

/-- atom prefixes: every non-empty prefix is found before the (empty) word prefix -/
theorem atom_prefixes_selfmatch : ∀ F ∈ [Gen.asciiE, Gen.latexE, Gen.hanE], selfMatch F.atomHeads = true := by
  decide +kernel

/-- the four bracket openers of `parse_term` are pairwise prefix-incompatible, so dispatch is unambiguous -/
theorem openers_incompatible : ∀ F ∈ [Gen.asciiE, Gen.latexE, Gen.hanE],
    incompat F.extSetL F.intSetL = true ∧ incompat F.extSetL F.compL = true ∧ incompat F.extSetL F.stmtL = true ∧
    incompat F.intSetL F.compL = true ∧ incompat F.intSetL F.stmtL = true ∧ incompat F.compL F.stmtL = true := by
  decide +kernel

/-- no keyword that can follow a name starts with a name character (so atom names end where they should):
closers, separators, the parse-space and punctuation marks of ASCII and LaTeX -/
theorem name_terminators : ∀ F ∈ [Gen.asciiE, Gen.latexE],
    ∀ k ∈ [F.compR, F.extSetR, F.intSetR, F.stmtR, F.separator, F.spaceParse, F.pJudgement, F.pGoal, F.pQuestion, F.pQuest],
      ∀ c ∈ k.head?, F.isName c = false := by
  decide +kernel

end Narsese.Props.C01
