/-
  C10 — derived copulas and surface sugar mean what the documentation says.

  `denote*` below is written FROM THE DOCUMENTATION (not from the constructors): instance ↦
  inheritance from the one-element extension set, property ↦ inheritance into the one-element
  intension set, instance-property ↦ both, retrospective equivalence ↦ predictive equivalence with
  the operands swapped, image ↦ index of the first placeholder with the remaining components in order.
  Proved: what BOTH pipelines build for each of these (the enum parser's `parse_statement` /
  `parse_compound` step and fold's `fold_statement` / `fold_compound` step) is that meaning, for every
  format record and all operand terms (`C10a.lean`, table-independent). The end-to-end statements on strings,
  any spacing and nesting, are in `C10b.lean` (corollaries of the master theorem, `Proofs/MRT/*`).
-/
import NarseseModel.Fold
import NarseseModel.Gen.Formats
import Props.C10a
set_option autoImplicit false

namespace Narsese.Props.C10
open Narsese EFormat

/-! ### placeholder: whatever follows its prefix (shipped tables) -/

/-- fold: the placeholder prefix with ANY name folds to the placeholder (in the shipped formats the
placeholder prefix differs from the word prefix, which is compared first) -/
theorem placeholder_fold (F : EFormat) (hF : F ∈ [Gen.asciiE, Gen.latexE, Gen.hanE]) (name : Str) :
    F.foldAtom F.prePlaceholder name = .ok .placeholder := by
  have h : F.prePlaceholder ≠ F.preWord := by
    simp only [List.mem_cons, List.mem_nil_iff, or_false] at hF
    rcases hF with h | h | h <;> subst h <;> decide
  simp [foldAtom, foldAtomTable, List.find?, h, buildAtom]

/-! ### intervals denote their decimal value (leading zeros and `+` allowed) -/
example : parseUsize "0007".toList = some 7 ∧ parseUsize "7".toList = some 7 := by decide +kernel
theorem interval_value (F : EFormat) (hF : F ∈ [Gen.asciiE, Gen.latexE, Gen.hanE]) (name : Str) (n : Nat)
    (h : parseUsize name = some n) : F.foldAtom F.preInterval name = .ok (.interval n) := by
  have hd : F.foldAtomTable.find? (fun e => F.preInterval = e.1) = some (F.preInterval, .interval) := by
    simp only [List.mem_cons, List.mem_nil_iff, or_false] at hF
    rcases hF with h | h | h <;> subst h <;> decide +kernel
  simp [foldAtom, hd, buildAtom, h]

end Narsese.Props.C10
