/-
  C03 (master theorem) — both pipelines agree on EVERY spelling: any spacing, derived copulas included.
  The development lives in `Proofs/MRT/*`; the statements and the three shipped instances are in
  `Props/C09b.lean`; restated here under C03's name.
-/
import Props.C09b
set_option autoImplicit false

namespace Narsese.Props.C03
open Narsese EFormat

/-- **`pipelines_agree`**: for every well-formed surface value `sv` (token structure + spaces at every
boundary + copula written) of a pair of formats satisfying the decidable side conditions:
`enum_parse (svalTxt sv) = fold (lexical_parse (svalTxt sv)) = Ok (denVal sv)` -/
theorem pipelines_agree_every_spelling (F : EFormat) (L : LFormat) (hV : SurfaceItemsOK F) (hO : FoldOK F)
    (hX : LexSide F L) (hLI : LItemsOK L) (sv : SValue) (v : Narsese) (h : spellOK F L sv v = true) :
    F.eparse (svalTxt F sv) = .ok v ∧ (L.lparse (svalTxt F sv)).bind F.foldNarsese = .ok v :=
  C09.pipelines_agree F L hV hO hX hLI sv v h

theorem pipelines_agree_every_spelling_shipped (sv : SValue) (v : Narsese) :
    (spellOK Gen.asciiE Gen.asciiL sv v = true →
      Gen.asciiE.eparse (svalTxt Gen.asciiE sv) = .ok v ∧
      (Gen.asciiL.lparse (svalTxt Gen.asciiE sv)).bind Gen.asciiE.foldNarsese = .ok v) ∧
    (spellOK Gen.latexE Gen.latexL sv v = true →
      Gen.latexE.eparse (svalTxt Gen.latexE sv) = .ok v ∧
      (Gen.latexL.lparse (svalTxt Gen.latexE sv)).bind Gen.latexE.foldNarsese = .ok v) ∧
    (spellOK Gen.hanE Gen.hanL sv v = true →
      Gen.hanE.eparse (svalTxt Gen.hanE sv) = .ok v ∧
      (Gen.hanL.lparse (svalTxt Gen.hanE sv)).bind Gen.hanE.foldNarsese = .ok v) :=
  C09.pipelines_agree_shipped sv v

end Narsese.Props.C03
