/-
  C09 / C03 / C10 (master theorem) — whitespace between tokens never changes what is parsed; both pipelines
  agree on every spelling; the derived copulas mean what the documentation says, end to end.

  PROVED (all sizes, all spacings): a *surface value* (`SValue`) is the token structure of a Narsese term /
  sentence / task together with (i) the number of spaces at EVERY token boundary — after every opener, before
  every closer, around every separator, connecter and copula, between the items of a sentence line, inside
  the stamp and between the numbers of truth and budget, before the first and after the last token — and
  (ii) the copula / connecter actually written, so the four derived copulas are included. `svalTxt` is its
  string, `denVal` what it denotes, `eraseV` its lexical value. For every pair of formats satisfying the
  decidable side conditions (decided below for the three shipped pairs on the regenerated tables) and every
  well-formed surface value:

      enum_parse (svalTxt sv) = Ok (denVal sv)                                (`eparse_svalTxt`)
      lexical_parse (svalTxt sv) = Ok (eraseV sv),  fold (eraseV sv) = Ok (denVal sv)
      ⇒ both pipelines agree on every spelling                                (`pipelines_agree_surface`, C03)
      ⇒ two spellings of one token sequence parse alike, zero spaces included  (`ws_insensitive`, C09)
      ⇒ any spelling of the token sequence of an enum value `v` parses to `v`  (`respaced`)
      ⇒ `<S {-- P>`, `<S --] P>`, `<S {-] P>`, `<S <\> P>` parse to the documented terms (`derived_*`, C10)
-/
import Proofs.MRT.Zero
import Props.C03b
import Props.C09
import Props.C10
import Props.C11
set_option autoImplicit false

namespace Narsese.Props.C09
open Narsese EFormat

theorem surface_ascii : SurfaceItemsOK Gen.asciiE :=
  ⟨⟨C01.formatOK_ascii, by decide +kernel⟩, C01.itemsOK_ascii, by decide +kernel⟩
theorem surface_latex : SurfaceItemsOK Gen.latexE :=
  ⟨⟨C01.formatOK_latex, by decide +kernel⟩, C01.itemsOK_latex, by decide +kernel⟩
theorem surface_han : SurfaceItemsOK Gen.hanE :=
  ⟨⟨C01.formatOK_han, by decide +kernel⟩, C01.itemsOK_han, by decide +kernel⟩
theorem lexSide_ascii : LexSide Gen.asciiE Gen.asciiL := lexSide_of_bool (by decide +kernel)
theorem lexSide_latex : LexSide Gen.latexE Gen.latexL := lexSide_of_bool (by decide +kernel)
theorem lexSide_han : LexSide Gen.hanE Gen.hanL := lexSide_of_bool (by decide +kernel)

/-- **the enum entry point on any spelling returns the denotation** -/
theorem enum_parse_spelling (F : EFormat) (hV : SurfaceItemsOK F) (sv : SValue) (hwf : wfV F sv = true)
    (htop : topVB F sv = true) (v : Narsese) (hden : denVal F sv = some v) : F.eparse (svalTxt F sv) = .ok v :=
  eparse_svalTxt hV sv hwf (topV_of_B hV.items sv hwf htop) v hden

/-- **C03, every spelling** -/
theorem pipelines_agree (F : EFormat) (L : LFormat) (hV : SurfaceItemsOK F) (hO : FoldOK F) (hX : LexSide F L)
    (hLI : LItemsOK L) (sv : SValue) (v : Narsese) (h : spellOK F L sv v = true) :
    F.eparse (svalTxt F sv) = .ok v ∧ (L.lparse (svalTxt F sv)).bind F.foldNarsese = .ok v := by
  simp only [spellOK, Bool.and_eq_true, beq_iff_eq] at h
  obtain ⟨⟨⟨⟨h1, h2⟩, h3⟩, h4⟩, h5⟩ := h
  exact pipelines_agree_surface hV hO hX hLI sv h1 h2 h3 v h5 (wfLN_of_bool h4)

/-- **C09**: spellings of one token sequence parse alike in both pipelines -/
theorem ws_insensitive (F : EFormat) (L : LFormat) (hV : SurfaceItemsOK F) (hO : FoldOK F) (hX : LexSide F L)
    (hLI : LItemsOK L) (sv sw : SValue) (v w : Narsese) (hsame : eraseV F sv = eraseV F sw)
    (h : spellOK F L sv v = true) (h' : spellOK F L sw w = true) :
    F.eparse (svalTxt F sv) = F.eparse (svalTxt F sw) ∧
    (L.lparse (svalTxt F sv)).bind F.foldNarsese = (L.lparse (svalTxt F sw)).bind F.foldNarsese := by
  simp only [spellOK, Bool.and_eq_true, beq_iff_eq] at h h'
  obtain ⟨⟨⟨⟨h1, h2⟩, h3⟩, h4⟩, h5⟩ := h
  obtain ⟨⟨⟨⟨g1, g2⟩, g3⟩, _⟩, g5⟩ := h'
  have := spacing_irrelevant hV hO hX hLI sv sw hsame h1 g1 h2 g2 h3 g3 (by simp [h5]) (by simp [g5]) (wfLN_of_bool h4)
  exact ⟨this.1, this.2.1⟩

/-- any spelling of the token sequence of an enum value parses to that value -/
theorem respaced (F : EFormat) (L : LFormat) (hV : SurfaceItemsOK F) (hO : FoldOK F) (hX : LexSide F L)
    (hLI : LItemsOK L) (v : Narsese) (hv : wfN F v = true) (sv : SValue) (hsame : eraseV F sv = toLexN F v)
    (w : Narsese) (h : spellOK F L sv w = true) :
    F.eparse (svalTxt F sv) = .ok v ∧ (L.lparse (svalTxt F sv)).bind F.foldNarsese = .ok v := by
  simp only [spellOK, Bool.and_eq_true, beq_iff_eq] at h
  obtain ⟨⟨⟨⟨h1, h2⟩, h3⟩, h4⟩, h5⟩ := h
  exact respaced_value hV hO hX hLI v hv sv hsame h1 h2 h3 (by simp [h5]) (wfLN_of_bool h4)

/-- the three shipped pairs -/
theorem pipelines_agree_shipped (sv : SValue) (v : Narsese) :
    (spellOK Gen.asciiE Gen.asciiL sv v = true →
      Gen.asciiE.eparse (svalTxt Gen.asciiE sv) = .ok v ∧
      (Gen.asciiL.lparse (svalTxt Gen.asciiE sv)).bind Gen.asciiE.foldNarsese = .ok v) ∧
    (spellOK Gen.latexE Gen.latexL sv v = true →
      Gen.latexE.eparse (svalTxt Gen.latexE sv) = .ok v ∧
      (Gen.latexL.lparse (svalTxt Gen.latexE sv)).bind Gen.latexE.foldNarsese = .ok v) ∧
    (spellOK Gen.hanE Gen.hanL sv v = true →
      Gen.hanE.eparse (svalTxt Gen.hanE sv) = .ok v ∧
      (Gen.hanL.lparse (svalTxt Gen.hanE sv)).bind Gen.hanE.foldNarsese = .ok v) :=
  ⟨pipelines_agree _ _ surface_ascii C03.foldOK_ascii lexSide_ascii C02.litemsOK_ascii sv v,
   pipelines_agree _ _ surface_latex C03.foldOK_latex lexSide_latex C02.litemsOK_latex sv v,
   pipelines_agree _ _ surface_han C03.foldOK_han lexSide_han C02.litemsOK_han sv v⟩

/-- **the inline-macro path** (`enum_nse!` strips every whitespace character of the literal, then calls `parse_chars`):
deleting all whitespace — the lexical format's table, which is `char::is_whitespace` (see `C09.lean`) — from ANY
spelling and parsing the rest gives the value -/
theorem macro_path_parse (F : EFormat) (L : LFormat) (hV : SurfaceItemsOK F) (hX : LexSide F L) (sv : SValue) (v : Narsese)
    (h : spellOK F L sv v = true) (h0 : topVB F (zeroV sv) = true) :
    F.eparse (L.idealize (svalTxt F sv)) = .ok v := by
  simp only [spellOK, Bool.and_eq_true, beq_iff_eq] at h
  obtain ⟨⟨⟨⟨h1, _⟩, h3⟩, _⟩, h5⟩ := h
  exact macro_path hV hX sv h1 h3 h0 v h5

/-! ### C10 end to end: the derived copulas -/

/-- a statement spelled with entry `j` of the copula table, any spacing, denotes `build_j(S, P)` -/
theorem derived_statement (F : EFormat) (hS : SurfaceOK F) (a b c d j : Nat) (s p : STerm) (s' p' : Term)
    (hj : j < F.copulaTable.length) (hws : wfS F s = true) (hwp : wfS F p = true)
    (hs : den F s = some s') (hp : den F p = some p') (rest : Str) (hst : Stop F rest) (len fuel : Nat)
    (hfuel : 3 * (stxt F (.stmt a s b j c p d) ++ rest).length + 2 ≤ fuel) :
    F.parseTerm fuel (mk len (stxt F (.stmt a s b j c p d) ++ rest)) = .ok ((F.copAt j).2.build s' p', mk len rest) :=
  parseTerm_stxt hS len _ (by simp [wfS, hj, hws, hwp]) _ (by simp [den, hs, hp]) rest hst fuel hfuel

/-- entries 4, 5, 6 and 12 of the table are the derived copulas, with the documented meaning -/
theorem derived_meaning (F : EFormat) (S P : Term) :
    (F.copAt 4).2.build S P = C10.denoteInstance S P ∧ (F.copAt 5).2.build S P = C10.denoteProperty S P ∧
    (F.copAt 6).2.build S P = C10.denoteInstanceProperty S P ∧ (F.copAt 12).2.build S P = C10.denoteEquivRetro S P := by
  simp [copAt, copulaTable, C10.denoteInstance, C10.denoteProperty, C10.denoteInstanceProperty,
    C10.denoteEquivRetro, CopK.build]

/-! ### non-vacuity: spaced and sugared spellings of the C01 sample satisfy every hypothesis -/

def σ1 (i : Nat) : Nat := (i * 7 + 3) % 3

example : spellOK Gen.asciiE Gen.asciiL (spell Gen.asciiE σ1 true C01.sampleTask) C01.sampleTask = true ∧
    spellOK Gen.latexE Gen.latexL (spell Gen.latexE σ1 true C01.sampleTask) C01.sampleTask = true ∧
    spellOK Gen.hanE Gen.hanL (spell Gen.hanE σ1 true C01.sampleTask) C01.sampleTask = true ∧
    spellOK Gen.asciiE Gen.asciiL (spell Gen.asciiE (fun _ => 0) true C01.sampleTask) C01.sampleTask = true := by
  decide +kernel

/-- tie of the model's copula look-ahead list (`EFormat.copulas`, written out in the model) to what the crate's
`NarseseFormat::copulas()` yields, regenerated on every run: the theorems of this file talk about the model's list -/
theorem copulas_lookahead_tie :
    Gen.asciiE.copulas = Gen.asciiCopulasOrder ∧ Gen.latexE.copulas = Gen.latexCopulasOrder ∧
    Gen.hanE.copulas = Gen.hanCopulasOrder := C11.copulas_order

end Narsese.Props.C09
