/-
  C17 — term mutators change exactly what they say, or fail and change nothing.
-/
import NarseseModel.Api
set_option autoImplicit false

namespace Narsese.Props.C17
open Narsese

/-- renaming one of the five named atom kinds succeeds and is reported back verbatim -/
theorem setAtomName_named (k : AtomK) (old n : Str) :
    (Term.atom k old).setAtomName n = (.ok (), .atom k n) ∧
    ((Term.atom k old).setAtomName n).2.atomName = some n := by
  simp [Term.setAtomName, Term.atomName, Term.isAtom, Term.category, Term.atomNameUnchecked, Res.toOption]

/-- on an interval: succeeds exactly when the name is an unsigned machine-word decimal, and then sets it;
otherwise fails and leaves the interval unchanged -/
theorem setAtomName_interval (i : Nat) (n : Str) :
    (∀ v, parseUsize n = some v → (Term.interval i).setAtomName n = (.ok (), .interval v)) ∧
    (parseUsize n = none → (Term.interval i).setAtomName n = (.err, .interval i)) := by
  constructor
  · intro v h; simp [Term.setAtomName, h]
  · intro h; simp [Term.setAtomName, h]

/-- on a placeholder: succeeds and changes nothing -/
theorem setAtomName_placeholder (n : Str) : Term.placeholder.setAtomName n = (.ok (), .placeholder) := rfl

/-- on compounds and statements: fails and leaves the term unchanged -/
theorem setAtomName_nonatom (t : Term) (n : Str) (h : t.isAtom = false) : t.setAtomName n = (.err, t) := by
  cases t <;> simp_all [Term.setAtomName, Term.isAtom, Term.category]

/-- in every case, an `Err` leaves the term as it was -/
theorem setAtomName_err_unchanged (t : Term) (n : Str) (h : (t.setAtomName n).1 = .err) :
    (t.setAtomName n).2 = t := by
  cases t with
  | interval i =>
    cases hp : parseUsize n <;> simp_all [Term.setAtomName]
  | _ => simp_all [Term.setAtomName]

/-! ### the unsigned-decimal syntax `str::parse::<usize>` accepts -/

/-- `parseUsize s = some k` exactly when `s` is an optional `+` followed by at least one ASCII digit,
the digits denote `k`, and `k` fits the 64-bit machine word -/
theorem parseUsize_spec (s : Str) (k : Nat) :
    parseUsize s = some k ↔
      ∃ ds, (s = ds ∨ s = '+' :: ds) ∧ ds ≠ [] ∧ allDigits ds = true ∧ digitsVal 0 ds = k ∧ k < 2 ^ 64 := by
  unfold parseUsize
  constructor
  · intro h
    split at h
    · next r =>
      refine ⟨r, .inr rfl, ?_⟩
      by_cases h1 : (r.isEmpty || !allDigits r) = true
      · simp [h1] at h
      · simp only [h1] at h
        simp only [Bool.or_eq_true, Bool.not_eq_eq_eq_not, Bool.not_true, not_or, Bool.not_eq_false,
          List.isEmpty_iff] at h1
        by_cases h2 : digitsVal 0 r < 2 ^ usizeBits
        · simp [h2] at h
          exact ⟨h1.1, by simpa using h1.2, h, by rw [← h]; exact h2⟩
        · simp [h2] at h
    · next hne =>
      refine ⟨s, .inl rfl, ?_⟩
      by_cases h1 : (s.isEmpty || !allDigits s) = true
      · simp [h1] at h
      · simp only [h1] at h
        simp only [Bool.or_eq_true, Bool.not_eq_eq_eq_not, Bool.not_true, not_or, Bool.not_eq_false,
          List.isEmpty_iff] at h1
        by_cases h2 : digitsVal 0 s < 2 ^ usizeBits
        · simp [h2] at h
          exact ⟨h1.1, by simpa using h1.2, h, by rw [← h]; exact h2⟩
        · simp [h2] at h
  · rintro ⟨ds, hs, hne, hd, hv, hk⟩
    rcases hs with hs | hs
    · subst hs
      -- a digit string does not start with '+'
      have hplus : ∀ r, s ≠ '+' :: r := by
        intro r hr
        rw [hr] at hd
        simp [allDigits, isDigit] at hd
      split
      · next r => exact absurd rfl (hplus r)
      · have : s.isEmpty = false := by cases s <;> simp_all
        simp [this, hd, hv, usizeBits, hk]
    · subst hs
      have : ds.isEmpty = false := by cases ds <;> simp_all
      simp [this, hd, hv, usizeBits, hk]

example : parseUsize "18446744073709551615".toList = some 18446744073709551615 := by decide +kernel
example : parseUsize "18446744073709551616".toList = none := by decide +kernel
example : parseUsize "+007".toList = some 7 := by decide +kernel
example : parseUsize "+".toList = none ∧ parseUsize [] = none ∧ parseUsize "-0".toList = none := by decide +kernel

/-! ### appending components -/

/-- succeeds exactly for the variable-arity compounds -/
def variableArity : Term → Bool
  | .seqlike _ _ | .image _ _ _ | .setlike _ _ => true
  | _ => false

theorem push_ok_iff (t : Term) (cs : List Term) : (t.pushComponents cs).1 = .ok () ↔ variableArity t = true := by
  cases t <;> simp [Term.pushComponents, variableArity]

/-- ordered compounds: appended in order -/
theorem push_ordered (cs : List Term) :
    (∀ k ts, ((Term.seqlike k ts).pushComponents cs).2.components = ts.toList ++ cs) ∧
    (∀ k i ts, ((Term.image k i ts).pushComponents cs).2 = .image k i (Terms.ofList (ts.toList ++ cs))) := by
  constructor
  · intro k ts; simp [Term.pushComponents, Term.components, Terms.toList_ofList]
  · intro k i ts; simp [Term.pushComponents]

/-- unordered compounds: united (same constructor; every old and new component is present up to `sem`,
and nothing else) -/
theorem push_unordered_mem (k : SetK) (ts : Terms) (cs : List Term) :
    ∃ us, ((Term.setlike k ts).pushComponents cs).2 = .setlike k us ∧ us.toList = dedupSem ts.toList cs := by
  exact ⟨_, rfl, by simp [Terms.toList_ofList]⟩

/-- atoms, negation, differences and statements: fails without modification -/
theorem push_fixed_unchanged (t : Term) (cs : List Term) (h : variableArity t = false) :
    t.pushComponents cs = (.err, t) := by
  cases t <;> simp_all [Term.pushComponents, variableArity]

theorem push_err_unchanged (t : Term) (cs : List Term) (h : (t.pushComponents cs).1 = .err) :
    (t.pushComponents cs).2 = t := by
  cases t <;> simp_all [Term.pushComponents]

end Narsese.Props.C17
