/-
  C03 (main theorem, formatter-emitted strings) — both pipelines agree on everything the enum formatter
  can emit.

  PROVED (all sizes): for every pair of an enum format `F` and a lexical format `L` that use the same
  template keywords (`agreeB`), with `F` satisfying the C01 side conditions and `foldOKB` (every fold table
  maps each keyword to its own constructor — where the D4 slip lived) and `L` satisfying the C02 side
  conditions — all decided below for the three shipped pairs on the regenerated tables — and every
  well-formed enum value `v` whose lexical image is vocabulary-drawn:

      enum_parse_F (format_F v) = Ok v      and      fold_F (lexical_parse_L (format_F v)) = Ok v.

  Ingredients: `toLex` (the lexical image), `fmt_toLex` (the enum formatter prints, character for
  character, what the lexical formatter prints for the image; sentence lines agree after `idealize_env`),
  the lexical round trip (C02), `fold_toLexN` (folding the image gives the value back: every constructor,
  images via `to_terms_with_image`, sets via the duplicate-free builder, numbers via `f64::from_str`, stamps and
  punctuation through the enum parser's side doors), and the enum round trip (C01).
  NOT covered by this theorem (decided for the code by the `surface` stream only): the same strings
  re-spaced or written with the derived copulas.
-/
import Proofs.C03.FoldValue
import Props.C01c
import Props.C02b
import Props.C03
import Props.C11
set_option autoImplicit false

namespace Narsese.Props.C03
open Narsese EFormat

theorem agree_ascii : Agree Gen.asciiE Gen.asciiL := agree_of_bool (by decide +kernel)
theorem agree_latex : Agree Gen.latexE Gen.latexL := agree_of_bool (by decide +kernel)
theorem agree_han : Agree Gen.hanE Gen.hanL := agree_of_bool (by decide +kernel)
theorem foldOK_ascii : FoldOK Gen.asciiE := foldOK_of_bool (by decide +kernel)
theorem foldOK_latex : FoldOK Gen.latexE := foldOK_of_bool (by decide +kernel)
theorem foldOK_han : FoldOK Gen.hanE := foldOK_of_bool (by decide +kernel)

/-- **C03 on formatter-emitted strings**, for every pair of formats satisfying the side conditions -/
theorem pipelines_agree_formatted (F : EFormat) (L : LFormat) (hI : ItemsOK F) (hO : FoldOK F) (hA : Agree F L)
    (hLI : LItemsOK L) (hW : lWsOKB L = true) (v : Narsese) (hwf : wfN F v = true) (htop : topN F v = true)
    (hlv : wfLNB L (toLexN F v) = true) (hws : wsFreeN L (toLexN F v) = true) :
    F.eparse (F.fmtNarsese v) = .ok v ∧ (L.lparse (F.fmtNarsese v)).bind F.foldNarsese = .ok v :=
  pipelines_agree_on_formatted hI hO hA hLI hW v hwf htop hlv hws

/-- the three shipped pairs -/
theorem pipelines_agree_ascii (v : Narsese) (hwf : wfN Gen.asciiE v = true) (htop : topN Gen.asciiE v = true)
    (hlv : wfLNB Gen.asciiL (toLexN Gen.asciiE v) = true) (hws : wsFreeN Gen.asciiL (toLexN Gen.asciiE v) = true) :
    Gen.asciiE.eparse (Gen.asciiE.fmtNarsese v) = .ok v ∧
    (Gen.asciiL.lparse (Gen.asciiE.fmtNarsese v)).bind Gen.asciiE.foldNarsese = .ok v :=
  pipelines_agree_on_formatted C01.itemsOK_ascii foldOK_ascii agree_ascii C02.litemsOK_ascii C02.lws_ascii v hwf htop hlv hws
theorem pipelines_agree_latex (v : Narsese) (hwf : wfN Gen.latexE v = true) (htop : topN Gen.latexE v = true)
    (hlv : wfLNB Gen.latexL (toLexN Gen.latexE v) = true) (hws : wsFreeN Gen.latexL (toLexN Gen.latexE v) = true) :
    Gen.latexE.eparse (Gen.latexE.fmtNarsese v) = .ok v ∧
    (Gen.latexL.lparse (Gen.latexE.fmtNarsese v)).bind Gen.latexE.foldNarsese = .ok v :=
  pipelines_agree_on_formatted C01.itemsOK_latex foldOK_latex agree_latex C02.litemsOK_latex C02.lws_latex v hwf htop hlv hws
theorem pipelines_agree_han (v : Narsese) (hwf : wfN Gen.hanE v = true) (htop : topN Gen.hanE v = true)
    (hlv : wfLNB Gen.hanL (toLexN Gen.hanE v) = true) (hws : wsFreeN Gen.hanL (toLexN Gen.hanE v) = true) :
    Gen.hanE.eparse (Gen.hanE.fmtNarsese v) = .ok v ∧
    (Gen.hanL.lparse (Gen.hanE.fmtNarsese v)).bind Gen.hanE.foldNarsese = .ok v :=
  pipelines_agree_on_formatted C01.itemsOK_han foldOK_han agree_han C02.litemsOK_han C02.lws_han v hwf htop hlv hws

/-- folding the lexical image of ANY well-formed enum value gives the value back -/
theorem fold_image (F : EFormat) (hI : ItemsOK F) (hO : FoldOK F) (v : Narsese) (hwf : wfN F v = true) :
    F.foldNarsese (toLexN F v) = .ok v := fold_toLexN hI hO v hwf

/-- the enum formatter prints what the lexical formatter prints for the image (terms, character for character) -/
theorem formatters_agree (F : EFormat) (L : LFormat) (hA : Agree F L) (t : Term) :
    L.fmtTerm (toLex F t) = F.fmtTerm t := fmt_toLex hA t

/-- non-vacuity: the C01 sample task satisfies all hypotheses in the three formats -/
example : wfLNB Gen.asciiL (toLexN Gen.asciiE C01.sampleTask) = true ∧
    wsFreeN Gen.asciiL (toLexN Gen.asciiE C01.sampleTask) = true ∧
    wfLNB Gen.latexL (toLexN Gen.latexE C01.sampleTask) = true ∧
    wfLNB Gen.hanL (toLexN Gen.hanE C01.sampleTask) = true := by decide +kernel

/-- tie of the model's copula look-ahead list (`EFormat.copulas`, written out in the model) to what the crate's
`NarseseFormat::copulas()` yields, regenerated on every run: the theorems of this file talk about the model's list -/
theorem copulas_lookahead_tie :
    Gen.asciiE.copulas = Gen.asciiCopulasOrder ∧ Gen.latexE.copulas = Gen.latexCopulasOrder ∧
    Gen.hanE.copulas = Gen.hanCopulasOrder := C11.copulas_order

end Narsese.Props.C03
