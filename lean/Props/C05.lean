/-
  C05 — the lexical parser and lexical folding are total.

  Proved at full strength here: **folding ANY lexical value** (arbitrary strings in every field,
  unknown prefixes / connecters / copulas, wrong arities, missing placeholders, non-numeric or
  out-of-range numbers, malformed stamps) returns Ok or Err — never panics — for every enum format.
  The lexical *parser* part (`lparse_total`) is covered by the correspondence and oracle streams;
  its theorem is the remaining obligation (DESIGN.md §6).
-/
import Proofs.FoldLemmas
set_option autoImplicit false

namespace Narsese.Props.C05
open Narsese EFormat

/-- the image index computed from the first placeholder is always in range (guards `new_image_*`) -/
theorem image_index_in_range (ts : List Term) (i : Nat) (ts' : List Term)
    (h : toTermsWithImage ts 0 none [] = (some i, ts')) : i ≤ ts'.length :=
  toTermsWithImage_index ts i ts' h

/-- folding a lexical TERM never panics, for every format record and every term -/
theorem fold_term_total (F : EFormat) (x : LTerm) : (F.foldTerm x).total = true := foldTerm_total F x

/-- truth / budget strings: validated before the panicking constructors are reached -/
theorem fold_truth_total (xs : List Str) : (foldTruth xs).total = true := foldTruth_total xs
theorem fold_budget_total (xs : List Str) : (foldBudget xs).total = true := foldBudget_total xs

/-- **`fold_total`**: for all lexical values `x` and all enum formats `F`, `x.try_fold_into(F)` is Ok or Err -/
theorem fold_total (F : EFormat) (x : LNarsese) : (F.foldNarsese x).total = true := by
  cases x with
  | term t => exact map_total _ _ (foldTerm_total F t)
  | sentence s => exact map_total _ _ (foldSentence_total F s)
  | task k => exact map_total _ _ (foldTask_total F k)

/-- non-vacuity: a lexical value with an unknown connecter, a missing placeholder and junk numbers
folds to `Err`, one with a placeholder folds to `Ok` -/
example : (default : EFormat).foldNarsese (.term (.compound ['?'] .nil)) = .err := by decide

end Narsese.Props.C05
