/-
  C02 — lexical Narsese survives format-then-parse in every shipped format.

  Proved so far (partial; `lex_roundtrip` over all vocabulary-consistent values is the remaining
  obligation, DESIGN.md §6 — decided for the code meanwhile by the `lexvalues` stream):
  the dictionary-ordered matching of the lexical parser picks the intended entry for every keyword of
  every dictionary of the three shipped formats, from the front (prefix dictionaries) and from the
  back (suffix dictionaries), in the REAL iteration order dumped from the crate.
-/
import NarseseModel.Lex
import NarseseModel.Gen.Formats
set_option autoImplicit false

namespace Narsese.Props.C02
open Narsese LFormat

def prefixSelf (dict : List Str) : Bool := dict.all (fun k => matchPrefix dict k == some k)
def suffixSelf (dict : List Str) : Bool := dict.all (fun k => matchSuffix dict k == some k)

/-- longest-keyword-first: e.g. `&&` before `&`, `{-]` before `{--`, `具有` before `有` -/
theorem prefix_dicts_selfmatch : ∀ L ∈ [Gen.asciiL, Gen.latexL, Gen.hanL],
    prefixSelf L.atomPrefixes = true ∧ prefixSelf L.connecters = true ∧ prefixSelf L.copulas = true ∧
    prefixSelf (L.setBrackets.map (·.1)) = true := by decide +kernel

theorem suffix_dicts_selfmatch : ∀ L ∈ [Gen.asciiL, Gen.latexL, Gen.hanL],
    suffixSelf L.punctuations = true ∧
    L.stampBrackets.all (fun p => matchSuffixPair L.stampBrackets (p.1 ++ ['0'] ++ p.2) == some p) = true := by
  decide +kernel

/-- brackets of the three term classes are distinguishable at the first position -/
theorem term_openers_incompatible : ∀ L ∈ [Gen.asciiL, Gen.latexL, Gen.hanL],
    incompat L.compL L.stmtL = true ∧ L.setBrackets.all (fun p => incompat p.1 L.compL && incompat p.1 L.stmtL) = true := by
  decide +kernel

/-- the budget closer can not be swallowed by a suffix item: no punctuation, truth or stamp keyword ends
where the budget bracket does, and the budget brackets are not content characters -/
theorem budget_bracket_not_content : ∀ L ∈ [Gen.asciiL, Gen.latexL, Gen.hanL],
    (L.budgetR.all (fun c => !inRanges L.isTruthTbl c && !inRanges L.isStampTbl c)) = true ∧
    L.punctuations.all (fun p => !isSuf p L.budgetR) = true := by
  decide +kernel

/-- splitting the text between brackets at the separator recovers the entries (numeric strings) -/
example : splitItems "%".toList "%".toList ";".toList "%1;0.9%".toList = ["1".toList, "0.9".toList] := by decide
example : splitItems "真".toList "值".toList "、".toList "真1、0.9值".toList = ["1".toList, "0.9".toList] := by decide

end Narsese.Props.C02
