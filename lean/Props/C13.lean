/-
  C13 — truth, budget and evidence numbers accept exactly the closed unit interval.

  The constructor / accessor / validation LOGIC is proved for an arbitrary validity predicate
  `valid : α → Bool` (the `f64` instance is `Num.in01`, i.e. `(0.0..=1.0).contains`).
  The floating-point leaf (`valid x ↔ 0 ≤ x ≤ 1` on IEEE values, `powf` staying in range) is not
  modelled in Lean: it is evaluated on the real `f64` by the harness (`ctor` stream).
-/
import NarseseModel.Value
set_option autoImplicit false

namespace Narsese.Props.C13
open Narsese

variable {α : Type} (valid : α → Bool)

/-- the fallible truth constructor succeeds exactly when every CONSUMED component (the first two) is valid -/
theorem truth_try_ok_iff (xs : List α) :
    (GTruth.tryFromFloats valid xs).isOk = (xs.take 2).all valid := by
  match xs with
  | [] => rfl
  | [f] =>
    by_cases h : valid f <;> simp [GTruth.tryFromFloats, GTruth.newSingle, tryValidate, validate, Res.bind, Res.isOk, h]
  | f :: c :: r =>
    by_cases h : valid f <;> by_cases h' : valid c <;>
      simp [GTruth.tryFromFloats, GTruth.newDouble, tryValidate, validate, Res.bind, Res.isOk, h, h']

/-- it never panics: the outcome is `Ok` or `Err` -/
theorem truth_try_total (xs : List α) : (GTruth.tryFromFloats valid xs).total = true := by
  match xs with
  | [] => rfl
  | [f] =>
    by_cases h : valid f <;> simp [GTruth.tryFromFloats, GTruth.newSingle, tryValidate, validate, Res.bind, Res.total, h]
  | f :: c :: r =>
    by_cases h : valid f <;> by_cases h' : valid c <;>
      simp [GTruth.tryFromFloats, GTruth.newDouble, tryValidate, validate, Res.bind, Res.total, h, h']

/-- on success the variant stores exactly the supplied numbers, surplus items ignored -/
theorem truth_try_components (xs : List α) (t : GTruth α)
    (h : GTruth.tryFromFloats valid xs = .ok t) : t.components = xs.take 2 ∧ t.arity = min 2 xs.length := by
  match xs with
  | [] => simp [GTruth.tryFromFloats] at h; subst h; simp [GTruth.components, GTruth.arity]
  | [f] =>
    by_cases hf : valid f <;>
      simp [GTruth.tryFromFloats, GTruth.newSingle, tryValidate, validate, Res.bind, hf] at h
    subst h; simp [GTruth.components, GTruth.arity]
  | f :: c :: r =>
    by_cases hf : valid f <;> by_cases hc : valid c <;>
      simp [GTruth.tryFromFloats, GTruth.newDouble, tryValidate, validate, Res.bind, hf, hc] at h
    subst h; simp [GTruth.components, GTruth.arity]

theorem budget_try_ok_iff (xs : List α) :
    (GBudget.tryFromFloats valid xs).isOk = (xs.take 3).all valid := by
  match xs with
  | [] => rfl
  | [p] =>
    by_cases h : valid p <;> simp [GBudget.tryFromFloats, GBudget.newSingle, tryValidate, validate, Res.bind, Res.isOk, h]
  | [p, d] =>
    by_cases h : valid p <;> by_cases h' : valid d <;>
      simp [GBudget.tryFromFloats, GBudget.newDouble, tryValidate, validate, Res.bind, Res.isOk, h, h']
  | p :: d :: q :: r =>
    by_cases h : valid p <;> by_cases h' : valid d <;> by_cases h'' : valid q <;>
      simp [GBudget.tryFromFloats, GBudget.newTriple, tryValidate, validate, Res.bind, Res.isOk, h, h', h'']

theorem budget_try_total (xs : List α) : (GBudget.tryFromFloats valid xs).total = true := by
  match xs with
  | [] => rfl
  | [p] =>
    by_cases h : valid p <;> simp [GBudget.tryFromFloats, GBudget.newSingle, tryValidate, validate, Res.bind, Res.total, h]
  | [p, d] =>
    by_cases h : valid p <;> by_cases h' : valid d <;>
      simp [GBudget.tryFromFloats, GBudget.newDouble, tryValidate, validate, Res.bind, Res.total, h, h']
  | p :: d :: q :: r =>
    by_cases h : valid p <;> by_cases h' : valid d <;> by_cases h'' : valid q <;>
      simp [GBudget.tryFromFloats, GBudget.newTriple, tryValidate, validate, Res.bind, Res.total, h, h', h'']

theorem budget_try_components (xs : List α) (b : GBudget α)
    (h : GBudget.tryFromFloats valid xs = .ok b) : b.components = xs.take 3 ∧ b.arity = min 3 xs.length := by
  match xs with
  | [] => simp [GBudget.tryFromFloats] at h; subst h; simp [GBudget.components, GBudget.arity]
  | [p] =>
    by_cases hp : valid p <;>
      simp [GBudget.tryFromFloats, GBudget.newSingle, tryValidate, validate, Res.bind, hp] at h
    subst h; simp [GBudget.components, GBudget.arity]
  | [p, d] =>
    by_cases hp : valid p <;> by_cases hd : valid d <;>
      simp [GBudget.tryFromFloats, GBudget.newDouble, tryValidate, validate, Res.bind, hp, hd] at h
    subst h; simp [GBudget.components, GBudget.arity]
  | p :: d :: q :: r =>
    by_cases hp : valid p <;> by_cases hd : valid d <;> by_cases hq : valid q <;>
      simp [GBudget.tryFromFloats, GBudget.newTriple, tryValidate, validate, Res.bind, hp, hd, hq] at h
    subst h; simp [GBudget.components, GBudget.arity]

/-- the panicking constructors panic exactly when the fallible one, on the same components, is `Err`;
otherwise both return the same value -/
theorem truth_single_panic_iff (f : α) :
    (GTruth.newSingle valid f = .panic ↔ GTruth.tryFromFloats valid [f] = .err) ∧
    (∀ t, GTruth.newSingle valid f = .ok t ↔ GTruth.tryFromFloats valid [f] = .ok t) := by
  by_cases h : valid f <;> simp [GTruth.tryFromFloats, GTruth.newSingle, tryValidate, validate, Res.bind, h]

theorem truth_double_panic_iff (f c : α) :
    (GTruth.newDouble valid f c = .panic ↔ GTruth.tryFromFloats valid [f, c] = .err) ∧
    (∀ t, GTruth.newDouble valid f c = .ok t ↔ GTruth.tryFromFloats valid [f, c] = .ok t) := by
  by_cases h : valid f <;> by_cases h' : valid c <;>
    simp [GTruth.tryFromFloats, GTruth.newDouble, tryValidate, validate, Res.bind, h, h']

theorem budget_single_panic_iff (p : α) :
    (GBudget.newSingle valid p = .panic ↔ GBudget.tryFromFloats valid [p] = .err) ∧
    (∀ t, GBudget.newSingle valid p = .ok t ↔ GBudget.tryFromFloats valid [p] = .ok t) := by
  by_cases h : valid p <;> simp [GBudget.tryFromFloats, GBudget.newSingle, tryValidate, validate, Res.bind, h]

theorem budget_double_panic_iff (p d : α) :
    (GBudget.newDouble valid p d = .panic ↔ GBudget.tryFromFloats valid [p, d] = .err) ∧
    (∀ t, GBudget.newDouble valid p d = .ok t ↔ GBudget.tryFromFloats valid [p, d] = .ok t) := by
  by_cases h : valid p <;> by_cases h' : valid d <;>
    simp [GBudget.tryFromFloats, GBudget.newDouble, tryValidate, validate, Res.bind, h, h']

theorem budget_triple_panic_iff (p d q : α) :
    (GBudget.newTriple valid p d q = .panic ↔ GBudget.tryFromFloats valid [p, d, q] = .err) ∧
    (∀ t, GBudget.newTriple valid p d q = .ok t ↔ GBudget.tryFromFloats valid [p, d, q] = .ok t) := by
  by_cases h : valid p <;> by_cases h' : valid d <;> by_cases h'' : valid q <;>
    simp [GBudget.tryFromFloats, GBudget.newTriple, tryValidate, validate, Res.bind, h, h', h'']

/-- accessors return the stored number unchanged and panic exactly for components the variant lacks -/
theorem truth_accessors (t : GTruth α) :
    (t.f = .panic ↔ t.arity < 1) ∧ (t.c = .panic ↔ t.arity < 2) ∧
    (∀ x, t.f = .ok x ↔ t.components[0]? = some x) ∧ (∀ x, t.c = .ok x ↔ t.components[1]? = some x) := by
  cases t <;> simp [GTruth.f, GTruth.c, GTruth.arity, GTruth.components]

theorem budget_accessors (b : GBudget α) :
    (b.p = .panic ↔ b.arity < 1) ∧ (b.d = .panic ↔ b.arity < 2) ∧ (b.q = .panic ↔ b.arity < 3) ∧
    (∀ x, b.p = .ok x ↔ b.components[0]? = some x) ∧ (∀ x, b.d = .ok x ↔ b.components[1]? = some x) ∧
    (∀ x, b.q = .ok x ↔ b.components[2]? = some x) := by
  cases b <;> simp [GBudget.p, GBudget.d, GBudget.q, GBudget.arity, GBudget.components]

/-- `is_valid`, `try_validate` and `validate` agree with each other -/
theorem validate_agree (x : α) :
    (validate valid x = .panic ↔ tryValidate valid x = .err) ∧
    (tryValidate valid x = .err ↔ valid x = false) ∧
    (tryValidate valid x = .ok x ↔ valid x = true) ∧
    (validate valid x = .ok x ↔ valid x = true) := by
  by_cases h : valid x <;> simp [validate, tryValidate, h]

/-- the `f64` instance: the unit-interval test on IEEE-754 bit patterns accepts exactly
`+0.0 ..= 1.0` (patterns up to that of `1.0`) and `-0.0`; every NaN, infinity, negative and `> 1`
pattern is rejected. -/
theorem in01_bits_spec (b : Nat) (hb : b < 2 ^ 64) :
    in01Bits b = true ↔ (b ≤ 0x3FF0000000000000 ∨ b = 0x8000000000000000) := by
  unfold in01Bits bitsOne bitsNegZero
  rw [Bool.or_eq_true, decide_eq_true_eq, beq_iff_eq]

theorem in01_rejects_special :
    in01Bits bitsInf = false ∧ in01Bits bitsNaN = false ∧ in01Bits (bitsNegZero + bitsInf) = false ∧
    in01Bits (bitsOne + 1) = false ∧ in01Bits (bitsNegZero + 1) = false ∧
    in01Bits 0 = true ∧ in01Bits bitsNegZero = true ∧ in01Bits bitsOne = true ∧ in01Bits 1 = true := by
  decide

/-- non-vacuity: concrete tuples on both sides of every statement -/
example : GTruth.tryFromFloats (fun n : Nat => n ≤ 1) [1, 0, 7] = .ok (.double 1 0) := by decide
example : GTruth.tryFromFloats (fun n : Nat => n ≤ 1) [1, 7] = .err := by decide
example : GBudget.newTriple (fun n : Nat => n ≤ 1) 1 0 7 = .panic := by decide

end Narsese.Props.C13
