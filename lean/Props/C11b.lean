/-
  C11 (semantics of the published grammar, soundness of the executable reference).

  The README grammar is read with its DECLARATIVE semantics (`NarseseModel/PegSem.lean`: `Ev`, the usual
  big-step PEG semantics with pest's implicit whitespace, atomic and silent rules and token trees — no fuel, no
  algorithm). PROVED: the interpreter the check runs on the real formatter outputs (`referenceS`, with an explicit
  out-of-fuel outcome) is SOUND for it: whenever it returns a value `v` for a string `s`, the published grammar —
  the rules regenerated from README.md on every run — derives a tree for the whole of `s` from `narsese` whose
  reading is `v`. So each concrete comparison the check makes ("the grammar reads this formatter output as the
  same value the library's lexical parser returns") is a comparison with the grammar's own semantics, not with
  an unverified tool.
  NOT proved (the remaining obligation of C11): that for EVERY well-formed value the formatter's output has
  such a derivation (`ascii_conforms`); decided for the code on generated values only.
-/
import Proofs.Peg.Sound
import NarseseModel.Gen.ReadmeGrammar
import Props.C11
set_option autoImplicit false

namespace Narsese.Props.C11
open Narsese Peg

/-- **soundness of the reference**, for every grammar -/
theorem reference_sound (G : Grammar) (s : Str) (v : LNarsese) (h : referenceS G s = some v) : Reads G s v :=
  referenceS_sound G s v h

/-- … for the regenerated README grammar -/
theorem readme_reference_sound (s : Str) (v : LNarsese) (h : referenceS Gen.readmeGrammar s = some v) :
    Reads Gen.readmeGrammar s v := referenceS_sound _ s v h

/-- the interpreter's `ok` / `fail` answers are the semantics' answers, expression by expression -/
theorem interpreter_sound (G : Grammar) (fuel : Nat) (a : Bool) (p : Peg.Peg) (s : Str) :
    (∀ r k, runS G fuel a p s = .ok r k → Ev G a p s (some (r, k))) ∧ (runS G fuel a p s = .fail → Ev G a p s none) :=
  runS_sound G fuel a p s

/-- an instance, by computation + soundness: the grammar reads `<a --> b>. :|: %1;0.9%` as that sentence -/
example : Reads Gen.readmeGrammar "<a --> b>. :|: %1;0.9%".toList
    (.sentence { term := .stmt "-->".toList (.atom [] "a".toList) (.atom [] "b".toList), punct := ".".toList,
                 stamp := ":|:".toList, truth := ["1".toList, "0.9".toList] }) :=
  referenceS_sound _ _ _ (by decide +kernel)

end Narsese.Props.C11
