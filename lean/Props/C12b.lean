/-
  C12 (enum parser part) — values produced by PARSING are always well-formed: proved at full strength.
-/
import Proofs.EParseWF
import NarseseModel.Gen.Formats
set_option autoImplicit false

namespace Narsese.Props.C12
open Narsese EFormat

/-- **`eparse_wf`**: for all strings `s` (well-formed or garbage, any length) and ALL format records `F`:
`enum_parse_F(s) = Ok(v) ⇒ wf(v)`, where `wf` = atom names other than the placeholder non-empty, no empty
compound or set (an image's own placeholder counts as content), every image index at most its number
of components, every truth / budget component in [0,1] — at every nesting depth. Arity of negation and
of the two differences is structural (one / two boxed operands). -/
theorem eparse_wf (F : EFormat) (input : Str) (v : Narsese) (h : F.eparse input = .ok v) :
    narseseWF v = true := Narsese.eparse_wf F input v h

/-- the same for every element `parse_multi` returns (it is `map eparse`, C08) -/
theorem parseMulti_wf (F : EFormat) (inputs : List Str) (v : Narsese)
    (h : Res.ok v ∈ F.parseMulti inputs) : narseseWF v = true := by
  have aux : ∀ (is : List Str) (s : PState), F.parseMultiAux s is = is.map F.eparse := by
    intro is
    induction is with
    | nil => intro s; rfl
    | cons i is ih => intro s; simp only [parseMultiAux, List.map_cons]; rw [ih]; rfl
  rw [parseMulti, aux] at h
  simp only [List.mem_map] at h
  obtain ⟨i, _, hi⟩ := h
  exact Narsese.eparse_wf F i v hi

/-- the stand-alone truth / budget parsers only return in-range values -/
theorem truthDoor_range (F : EFormat) (input : Str) (t : Truth) (h : F.parseTruthDoor input = .ok t) :
    truthOK t = true := by
  unfold parseTruthDoor at h
  cases hr : F.consumeTruth (Cur.ofEnv input) with
  | ok p =>
    obtain ⟨t', c⟩ := p
    rw [hr] at h
    simp [Props.C04.eagerErr_ok, PRes.toRes] at h
    subst h
    exact consumeTruth_range F _ t' c hr
  | err e => rw [hr] at h; simp [PRes.toRes] at h
  | panic => rw [hr] at h; simp [PRes.toRes] at h
  | fuel => rw [hr] at h; simp [PRes.toRes] at h

theorem budgetDoor_range (F : EFormat) (input : Str) (b : Budget) (h : F.parseBudgetDoor input = .ok b) :
    budgetOK b = true := by
  unfold parseBudgetDoor at h
  cases hr : F.consumeBudget (Cur.ofEnv input) with
  | ok p =>
    obtain ⟨b', c⟩ := p
    rw [hr] at h
    simp [Props.C04.eagerErr_ok, PRes.toRes] at h
    subst h
    exact consumeBudget_range F _ b' c hr
  | err e => rw [hr] at h; simp [PRes.toRes] at h
  | panic => rw [hr] at h; simp [PRes.toRes] at h
  | fuel => rw [hr] at h; simp [PRes.toRes] at h

/-- non-vacuity: a lenient input (unterminated number list, unterminated brackets) that IS accepted -/
example : (Gen.asciiE.eparse "(&&, <a --> {b".toList).isOk = true := by decide +kernel

end Narsese.Props.C12
