/-
  C09 — whitespace between tokens never changes what is parsed.

  Basic facts (the main theorems — any number of spaces at any token boundary, both pipelines, and the macro
  path — are in `C09b.lean`, corollaries of the master theorem `Proofs/MRT/*`):
    * the lexical parser ignores EVERY Unicode whitespace character, anywhere (all spacings at once);
    * the inline-macro path strips exactly the characters the lexical parser strips;
    * the enum parser's `skip spaces` consumes any number of spaces and is idempotent.
-/
import NarseseModel.Lex
import NarseseModel.EParser
import NarseseModel.Gen.Formats
set_option autoImplicit false

namespace Narsese.Props.C09
open Narsese LFormat EFormat

/-- **the lexical parser ignores every whitespace character**: inserting whitespace anywhere (any
number of characters, at any positions — this covers every spacing of every token sequence) leaves
the parse result unchanged -/
theorem lex_ignores_whitespace (L : LFormat) (hr : L.removeSpaces = true) (a b ws : Str)
    (hws : ∀ c ∈ ws, L.isWs c = true) : L.lparse (a ++ ws ++ b) = L.lparse (a ++ b) := by
  have : L.idealize (a ++ ws ++ b) = L.idealize (a ++ b) := by
    simp only [idealize, hr, if_true, List.filter_append]
    have : ws.filter (fun c => !L.isWs c) = [] := by
      rw [List.filter_eq_nil_iff]; intro c hc; simp [hws c hc]
    simp [this]
  simp only [lparse, this]

theorem lexterm_ignores_whitespace (L : LFormat) (hr : L.removeSpaces = true) (a b ws : Str)
    (hws : ∀ c ∈ ws, L.isWs c = true) : L.lparseTerm (a ++ ws ++ b) = L.lparseTerm (a ++ b) := by
  have : L.idealize (a ++ ws ++ b) = L.idealize (a ++ b) := by
    simp only [idealize, hr, if_true, List.filter_append]
    have : ws.filter (fun c => !L.isWs c) = [] := by
      rw [List.filter_eq_nil_iff]; intro c hc; simp [hws c hc]
    simp [this]
  simp only [lparseTerm, this]

/-- all three shipped lexical formats remove whitespace, and "whitespace" is `char::is_whitespace`
(the very table the macros filter with: tab, newline, ideographic space, NBSP, ...) -/
theorem shipped_remove_unicode_whitespace : ∀ L ∈ [Gen.asciiL, Gen.latexL, Gen.hanL],
    L.removeSpaces = true ∧ L.isWsTbl = Gen.typstC.isWsTbl := by decide +kernel

example : Gen.asciiL.isWs '\t' = true ∧ Gen.asciiL.isWs '\n' = true ∧ Gen.asciiL.isWs (Char.ofNat 0x3000) = true ∧
    Gen.asciiL.isWs ' ' = true ∧ Gen.asciiL.isWs 'a' = false := by decide +kernel

/-- hence whitespace-stripped text is a fixed point: the macro path (`filter(!is_whitespace)`) feeds the
parser exactly the idealised environment -/
theorem idealize_idem (L : LFormat) (s : Str) : L.idealize (L.idealize s) = L.idealize s := by
  unfold idealize
  split <;> simp [List.filter_filter]

/-! ### enum parser: `head_skip_spaces` -/

theorem skipSpAux_none (sp s : Str) (n : Nat) (h : strip sp s = none) : skipSpAux sp n s = s := by
  cases n <;> simp [skipSpAux, h]

/-- skipping is idempotent (a second skip finds nothing to skip), given enough fuel for the first one -/
theorem skipSpAux_stops (sp : Str) : ∀ (n : Nat) (s : Str), s.length ≤ n → sp ≠ [] →
    strip sp (skipSpAux sp n s) = none ∨ skipSpAux sp n s = []
  | 0, s, h, _ => by
    have : s = [] := List.eq_nil_of_length_eq_zero (by omega)
    simp [skipSpAux, this]
  | n + 1, s, h, hsp => by
    simp only [skipSpAux]
    cases hs : strip sp s with
    | none => simp [hs]
    | some r =>
      simp only
      apply skipSpAux_stops sp n r _ hsp
      -- `r` is strictly shorter than `s`
      have : s.length = sp.length + r.length := by
        have : ∀ (k s r : Str), strip k s = some r → s.length = k.length + r.length := by
          intro k
          induction k with
          | nil => intro s r h; simp [strip] at h; simp [h]
          | cons a k ih =>
            intro s r h
            cases s with
            | nil => simp [strip] at h
            | cons c cs =>
              simp only [strip] at h
              split at h
              · have := ih cs r h; simp [this]; omega
              · simp at h
        exact this sp s r hs
      have : sp.length > 0 := by cases sp <;> simp_all
      omega

end Narsese.Props.C09
