/-
  C11 (main theorem) — every string the ASCII formatters produce for a well-formed value is a sentence of the
  README grammar, classified as the same kind, with the same tree as the lexical parser returns.

  `ascii_conforms`        for every lexical value satisfying the grammar-side well-formedness `gValOKB`
                          (a decidable predicate spelled out in Proofs/Peg/{Atoms,Term,Whole}.lean), the
                          grammar regenerated from README.md derives — in its DECLARATIVE semantics `Ev`, no
                          fuel, no interpreter — a tree for the WHOLE string from `narsese`, and that tree reads
                          back (`toNarsese`) as exactly the value printed: same kind, prefixes, names,
                          connecters, component order, brackets, copulas, punctuation, stamp text, truth and
                          budget entries.
  `ascii_conforms_wf`     the same from the hypotheses of C02 (`wfLNB`: keywords drawn from the ASCII
                          dictionaries regenerated from the crate) plus `gExtraB` (names are grammar names, stamps
                          are `:`…`:`, a non-task text is not `$…$…`), and the tree IS the lexical parser's
                          result (`lex_roundtrip_ascii`).
  `ascii_conforms_names`  the same with NO hypothesis beyond C02's and the restriction on names: stamp shape and the
                          `$` condition are derived from the stamp brackets / prefixes of the regenerated table
                          (`vocab2_ascii`); conclusion: parser result = grammar reading = the value, uniquely.
  `ascii_conforms_enum`   for enum values: the enum formatter prints what the lexical formatter prints for the
                          lexical image, so its output conforms as well and reads as the image.
  `vocab_ascii`           every ASCII keyword (connecter, copula, punctuation, set bracket, atom prefix) of the
                          regenerated table is read whole by the corresponding grammar rule.
  `layout_ascii`          the ASCII layout characters are the grammar's literals.
  `readme_en_same`        the grammar block of README.en.md is the grammar block of README.md (found D7);
  `ascii_conforms_en`     the semantics depends on a grammar only through its lookups (`ev_congr`), so the theorem holds
                          for the English block as well.
  `ascii_reading_unique`  the semantics is deterministic (`grammar_deterministic`), so the reading above is the ONLY
                          one: the grammar classifies the string as this kind and this tree and no other.

  K3 (known finding, see `k3_rejected`): names containing `_-_` (more generally
  `punct_sym "-" punct_sym`, the grammar's first copula alternative) are excluded by `gNameOKB`; for them
  the property is FALSE of the unchanged crate and README — the grammar rejects `a_-_b` while the library prints
  and reads it.
-/
import Proofs.Peg.Vocab2
import Proofs.Peg.Enum
import Proofs.Peg.Det
import Proofs.Peg.K3
import Proofs.Peg.Congr
import Props.C02b
import Props.C03b
import Props.C11b
set_option autoImplicit false

namespace Narsese.Props.C11
open Narsese Peg

theorem layout_ascii : GLayout Gen.asciiL :=
  ⟨by decide +kernel, by decide +kernel, by decide +kernel, by decide +kernel, by decide +kernel, by decide +kernel,
   by decide +kernel, by decide +kernel, by decide +kernel, by decide +kernel, by decide +kernel, by decide +kernel,
   by decide +kernel⟩

theorem vocab_ascii : vocabFactsB Gen.asciiL = true := by decide +kernel

/-- README.en.md publishes the same grammar as README.md (both ```pest blocks are re-translated on every run):
the same rules under the same names, in whatever order -/
theorem readme_en_same :
    (Gen.readmeRules.all (fun r => decide (Gen.readmeGrammarEn.rule? r.name = some r)) &&
     Gen.readmeRulesEn.all (fun r => decide (Gen.readmeGrammar.rule? r.name = some r))) = true := by decide +kernel

/-- **C11**, grammar-side hypotheses -/
theorem ascii_conforms (v : LNarsese) (h : gValOKB Gen.asciiL v = true) :
    Reads Gen.readmeGrammar (Gen.asciiL.fmtNarsese v) v :=
  ⟨valTree Gen.asciiL v, derives_value layout_ascii v h, toNarsese_tree layout_ascii v h⟩

/-- the derivation itself, and the kind: the tree's only child is a `task`, `sentence` or `term` node -/
theorem ascii_derivation (v : LNarsese) (h : gValOKB Gen.asciiL v = true) :
    DerivesAll Gen.readmeGrammar "narsese" (Gen.asciiL.fmtNarsese v) (valTree Gen.asciiL v) :=
  derives_value layout_ascii v h

theorem ascii_kind (v : LNarsese) :
    ∃ k, (valTree Gen.asciiL v).kids = [k] ∧ k.rule = (match v with | .term _ => "term" | .sentence _ => "sentence" | .task _ => "task") := by
  cases v with
  | term t => exact ⟨_, rfl, termTree_rule _ t⟩
  | sentence s => exact ⟨_, rfl, rfl⟩
  | task k => exact ⟨_, rfl, rfl⟩

/-- **C11**, from the hypotheses of C02: the grammar's reading is the lexical parser's result -/
theorem ascii_conforms_wf (v : LNarsese) (hv : wfLNB Gen.asciiL v = true) (hws : wsFreeN Gen.asciiL v = true)
    (hx : gExtraB Gen.asciiL v = true) :
    ∃ w, Gen.asciiL.lparse (Gen.asciiL.fmtNarsese v) = .ok w ∧ Reads Gen.readmeGrammar (Gen.asciiL.fmtNarsese v) w :=
  ⟨v, C02.lex_roundtrip_ascii v hv hws, ascii_conforms v (gVal_of_wf vocab_ascii v hv hx)⟩

theorem vocab2_ascii : vocabFacts2B Gen.asciiL = true := by decide +kernel

/-- **C11**, in the property's own terms: for every vocabulary-consistent lexical value (the hypotheses of C02)
whose atom names are grammar names (`gNamesN`: the property's restriction on names, K3 excluded), the lexical
parser reads the ASCII text back and the published grammar reads it as the same value -/
theorem ascii_conforms_names (v : LNarsese) (hv : wfLNB Gen.asciiL v = true) (hws : wsFreeN Gen.asciiL v = true)
    (hn : gNamesN v = true) :
    Gen.asciiL.lparse (Gen.asciiL.fmtNarsese v) = .ok v ∧ Reads Gen.readmeGrammar (Gen.asciiL.fmtNarsese v) v ∧
    ∀ w, Reads Gen.readmeGrammar (Gen.asciiL.fmtNarsese v) w → w = v := by
  have hx := gExtra_of_names layout_ascii vocab2_ascii v hv hn
  have hg := gVal_of_wf vocab_ascii v hv hx
  exact ⟨C02.lex_roundtrip_ascii v hv hws, ascii_conforms v hg, fun w hw => reads_unique hw (ascii_conforms v hg)⟩

theorem spaces_ascii : Gen.asciiE.spaceTerms = Gen.asciiE.spaceItems := by decide +kernel

/-- **C11**, enum formatter: its output is the lexical formatter's output for the lexical image, and conforms -/
theorem ascii_conforms_enum (x : Narsese) (h : gValOKB Gen.asciiL (toLexN Gen.asciiE x) = true) :
    Reads Gen.readmeGrammar (Gen.asciiE.fmtNarsese x) (toLexN Gen.asciiE x) := by
  rw [efmt_eq_lfmt C03.agree_ascii spaces_ascii x]
  exact ascii_conforms _ h

/-- the two published blocks have the same rule and class lookups … -/
theorem readme_en_lookups (n : String) : Gen.readmeGrammar.rule? n = Gen.readmeGrammarEn.rule? n := by
  have h := readme_en_same
  simp only [Bool.and_eq_true, List.all_eq_true, decide_eq_true_eq] at h
  exact rule_lookup_eq (G := Gen.readmeGrammar) (G' := Gen.readmeGrammarEn) h.1 h.2 n

/-- … hence **C11 for the grammar as published in README.en.md** -/
theorem ascii_conforms_en (v : LNarsese) (h : gValOKB Gen.asciiL v = true) :
    Reads Gen.readmeGrammarEn (Gen.asciiL.fmtNarsese v) v :=
  reads_congr readme_en_lookups (fun _ => rfl) (ascii_conforms v h)

/-! ### non-vacuity, and the finding -/

/-- `$0.5;0.9$ <(&&, a, {b-c, $x}) --> d>. :!-137: %1;0.9%` satisfies every hypothesis -/
example : gValOKB Gen.asciiL C02.sampleAscii = true ∧ wfLNB Gen.asciiL C02.sampleAscii = true ∧
    gExtraB Gen.asciiL C02.sampleAscii = true := by decide +kernel

/-- an enum task (the C01 sample) satisfies the enum theorem's hypothesis -/
example : gValOKB Gen.asciiL (toLexN Gen.asciiE C01.sampleTask) = true := by decide +kernel

/-- bare terms and `$`-variables as whole values -/
example : gValOKB Gen.asciiL (.term (.atom "$".toList "x1".toList)) = true ∧
    gValOKB Gen.asciiL (.sentence { term := .atom "$".toList "1".toList, punct := ".".toList, stamp := [], truth := [] }) = true ∧
    gValOKB Gen.asciiL (.term (.compound "/".toList (.cons (.atom [] "a".toList) (.cons (.atom "_".toList []) .nil)))) = true := by
  decide +kernel

/-- K3: the name `a_-_b` is outside `gNameOKB` … -/
example : gNameOKB "a_-_b".toList = false ∧ gNameOKB "a_-b".toList = true ∧ gNameOKB "go-to".toList = true := by
  decide +kernel

/-- … and the published grammar has NO reading of the formatter's output `a_-_b`, nor of a judgement about it
(the interpreter answers "no value" within its fuel; by soundness and determinism of the semantics there is no
derivation at all), although the lexical parser reads both back (replayed on the real crate by the check) -/
theorem k3_rejected :
    (∀ v, ¬ Reads Gen.readmeGrammar "a_-_b".toList v) ∧
    (∀ v, ¬ Reads Gen.readmeGrammar "<a_-_b --> c>.".toList v) ∧
    Gen.asciiL.lparse "a_-_b".toList = .ok (.term (.atom [] "a_-_b".toList)) :=
  ⟨referenceS_none _ (by decide +kernel) (by decide +kernel),
   referenceS_none _ (by decide +kernel) (by decide +kernel), by decide +kernel⟩

/-- **K3 as a class**: a word `c v1 x - z w` — `c` a letter / number, `v1` name characters, `x` and `z`
punctuation / symbol characters (within the property's names: `_` or `-`), this being the first place in the name
where the grammar's copula pattern begins — has NO reading by the published grammar, although the library prints
it as it stands. So the exclusion `noCopIn` in the hypothesis of `ascii_conforms` is necessary. -/
theorem k3_every_such_name (c x z : Char) (v1 w : Str) (hc : lnB c = true) (hv : v1.all acB = true)
    (hx : psB x = true) (hz : psB z = true)
    (hfirst : ∀ s, s ≠ [] → s <:+ v1 → gcopB (s ++ x :: '-' :: z :: w) = false) :
    ∀ val, ¬ Reads Gen.readmeGrammar (Gen.asciiL.fmtNarsese (.term (.atom [] (c :: v1 ++ x :: '-' :: z :: w)))) val := by
  have := k3_class c x z v1 w hc hv hx hz hfirst
  simpa [LFormat.fmtNarsese, LFormat.fmtTerm] using this

/-- instance: `go_-_to` -/
example : ∀ val, ¬ Reads Gen.readmeGrammar "go_-_to".toList val :=
  k3_class 'g' '_' '_' ['o'] "to".toList (by decide +kernel) (by decide +kernel) (by decide +kernel) (by decide +kernel)
    (by
      intro s hs hsuf
      have : s = ['o'] := by
        rcases hsuf with ⟨u, hu⟩
        cases s with
        | nil => exact absurd rfl hs
        | cons a s' =>
          have hl := congrArg List.length hu
          simp at hl
          have : s' = [] := by cases s' with | nil => rfl | cons _ _ => simp at hl; omega
          subst this
          have : u = [] := by cases u with | nil => rfl | cons _ _ => simp at hl
          subst this
          simpa using hu
      subst this
      decide +kernel)

/-! ### uniqueness: the grammar classifies the string as THIS kind and tree and no other -/

/-- the semantics of the published grammar is deterministic -/
theorem grammar_deterministic (G : Grammar) {a : Bool} {p : Peg.Peg} {s : Str} {r1 r2 : Option (Str × List PTree)}
    (h1 : Ev G a p s r1) (h2 : Ev G a p s r2) : r1 = r2 := ev_det h1 h2

/-- **C11, uniqueness**: any reading the grammar has of the formatter's output is the printed value -/
theorem ascii_reading_unique (v w : LNarsese) (h : gValOKB Gen.asciiL v = true)
    (hw : Reads Gen.readmeGrammar (Gen.asciiL.fmtNarsese v) w) : w = v :=
  reads_unique hw (ascii_conforms v h)

end Narsese.Props.C11
