/-
  C05 (main theorems, parser half) — the lexical parser is total.

  PROVED AT FULL STRENGTH: for every input string (unbounded length and nesting, any characters) and every
  lexical format satisfying two decidable conditions — both decided below for the three shipped formats on
  the tables regenerated from the crate — `impl_lexical::parse` and `parse_term` return Ok or Err:
  every slice `env[a..b]` has `a ≤ b ≤ len` (no panic) and the recursion terminates with the fuel the entry
  point supplies (each successful segmentation consumes at least one character).
  * `lSaneB`: the compound / statement / set openers are non-empty (otherwise Rust recurses for ever);
  * `lItemsSaneB`: the budget (segmented from the left) and truth / stamp / punctuation (segmented from
    the right) cannot cross, because the last character of the budget's closing bracket occurs in none of the
    right-hand brackets, alphabets or punctuation marks. Without it `&env[begin..right_border]` panics.
  Together with `fold_total` (`C05.lean`) the whole lexical pipeline parse-then-fold is total.
-/
import Proofs.LexItemsTotal
import NarseseModel.Gen.Formats
import Props.C05
set_option autoImplicit false

namespace Narsese.Props.C05
open Narsese EFormat LFormat

theorem lsane_ascii : LItemsSane Gen.asciiL := ⟨lSane_of_bool _ (by decide +kernel), by decide +kernel⟩
theorem lsane_latex : LItemsSane Gen.latexL := ⟨lSane_of_bool _ (by decide +kernel), by decide +kernel⟩
theorem lsane_han : LItemsSane Gen.hanL := ⟨lSane_of_bool _ (by decide +kernel), by decide +kernel⟩

/-- **`lparse_total`**: for all inputs and all formats satisfying the side conditions -/
theorem lparse_total (L : LFormat) (hs : LItemsSane L) (input : Str) : (L.lparse input).total = true :=
  Narsese.lparse_total L hs input

theorem lparseTerm_total (L : LFormat) (hs : LSane L) (input : Str) : (L.lparseTerm input).total = true :=
  Narsese.lparseTerm_total L hs input

/-- the three shipped lexical formats -/
theorem lparse_total_shipped (input : Str) :
    (Gen.asciiL.lparse input).total = true ∧ (Gen.latexL.lparse input).total = true ∧
    (Gen.hanL.lparse input).total = true :=
  ⟨lparse_total _ lsane_ascii input, lparse_total _ lsane_latex input, lparse_total _ lsane_han input⟩

theorem lparseTerm_total_shipped (input : Str) :
    (Gen.asciiL.lparseTerm input).total = true ∧ (Gen.latexL.lparseTerm input).total = true ∧
    (Gen.hanL.lparseTerm input).total = true :=
  ⟨lparseTerm_total _ lsane_ascii.term input, lparseTerm_total _ lsane_latex.term input,
   lparseTerm_total _ lsane_han.term input⟩

/-- every successful term segmentation consumes between 1 and `|env|` characters — the progress fact
behind termination, exported because the round-trip development uses it -/
theorem segTerm_progress (L : LFormat) (hs : LSane L) (fuel : Nat) (env : Str) (t : LTerm) (n : Nat)
    (h : L.segTerm fuel env = .ok (t, n)) : 1 ≤ n ∧ n ≤ env.length :=
  (segTerm_good L hs fuel env).2.1 t n h

/-- **the whole lexical pipeline is total**: parse, then fold whatever came out -/
theorem pipeline_total (L : LFormat) (hs : LItemsSane L) (F : EFormat) (input : Str) :
    ((L.lparse input).bind F.foldNarsese).total = true := by
  have h1 := lparse_total L hs input
  cases hr : L.lparse input with
  | ok v => exact fold_total F v
  | err => rfl
  | panic => rw [hr] at h1; exact absurd h1 (by simp [Res.total])
  | fuel => rw [hr] at h1; exact absurd h1 (by simp [Res.total])

/-- necessity of the crossing condition: a format whose punctuation mark equals the last character of the
budget's closing bracket makes `parse_items` slice `env[2..1]` — a panic -/
def crossing : LFormat :=
  { Gen.asciiL with budgetL := "$".toList, budgetR := "$.".toList, punctuations := [".".toList] }
example : crossing.lparse "$$.".toList = .panic := by decide +kernel

end Narsese.Props.C05
