/-
  C01 (main theorems, term level) — enum Narsese survives format-then-parse.

  PROVED: for every format record satisfying the decidable side condition `FormatOK` — decided below for
  the three shipped tables as regenerated from the crate — and every well-formed term `t` (all 30
  constructors, any nesting depth, any arity, images with every placeholder index), the term parser
  applied to the formatter's own text returns exactly `t` and stops exactly behind it, with the fuel the
  entry points supply. Well-formed (`wfT`): atom names satisfy `nameOK` (non-empty, name characters only,
  contain no copula and do not end in the beginning of one, do not begin with an atom prefix), intervals fit the
  machine word, compounds are non-empty, set-like components are pairwise semantically different (what a
  hash set holds), image indexes are within range and image components are placeholder-free.
  The sentence / task level (`C01c.lean`) builds on this.
-/
import Proofs.RT.Final
import NarseseModel.Gen.Formats
set_option autoImplicit false

namespace Narsese.Props.C01
open Narsese EFormat

/-- the side condition holds for the three shipped formats (re-decided on the regenerated tables):
openers pairwise distinguishable and never mistaken for atom prefixes or name characters; separators,
closers and the parse-space never start a term; copulas pairwise prefix-incompatible and never start with a
space or a digit; ordered first-match connecter table picks the printed connecter; digits are name characters -/
theorem formatOK_ascii : FormatOK Gen.asciiE := ⟨by decide +kernel⟩
theorem formatOK_latex : FormatOK Gen.latexE := ⟨by decide +kernel⟩
theorem formatOK_han : FormatOK Gen.hanE := ⟨by decide +kernel⟩

/-- **term-level round trip**, stated on the cursor the whole-value parser uses (`rest` = what follows the
term in the input; `Stop` = it does not continue the last atom's name) -/
theorem enum_term_roundtrip (F : EFormat) (hF : FormatOK F) (t : Term) (ht : wfT F t = true)
    (rest : Str) (hst : Stop F rest) (len fuel : Nat) (hfuel : 3 * (F.fmtTerm t ++ rest).length + 2 ≤ fuel) :
    F.parseTerm fuel (mk len (F.fmtTerm t ++ rest)) = .ok (t, mk len rest) :=
  parseTerm_fmtTerm hF len t ht rest hst fuel hfuel

/-- in particular a formatted term followed by nothing, with the fuel `consume_one` supplies -/
theorem enum_term_roundtrip_eof (F : EFormat) (hF : FormatOK F) (t : Term) (ht : wfT F t = true) :
    F.parseTerm (termFuel (Cur.ofEnv (F.fmtTerm t))) (Cur.ofEnv (F.fmtTerm t)) =
      .ok (t, mk (F.fmtTerm t).length []) := by
  have := parseTerm_fmtTerm hF (F.fmtTerm t).length t ht [] (stop_nil F) (termFuel (Cur.ofEnv (F.fmtTerm t)))
    (by simp [termFuel, Cur.ofEnv]; omega)
  simpa [mk, Cur.ofEnv] using this

/-- non-vacuity: a nested value using every constructor class satisfies `wfT` in all three formats -/
def sample : Term :=
  let w (s : String) : Term := .atom .word s.toList
  .bin .impl
    (.seqlike .seqConj (.cons
      (.bin .inh (.setlike .extSet (.cons (w "ball") .nil)) (.setlike .intSet (.cons (w "left") .nil)))
      (.cons (.bin .inh (.seqlike .product (.cons (.setlike .extSet (.cons (w "SELF") .nil))
          (.cons (.atom .ivar "any".toList) (.cons (.atom .dvar "some".toList) .nil)))) (.atom .op "go-to".toList))
      (.cons (.image .ext 1 (.cons (w "a") (.cons (.interval 7) .nil)))
      (.cons (.neg (.setlike .conj (.cons (w "x") (.cons (.bin .sim (w "p") (w "q")) .nil)))) .nil)))))
    (.bin .equivPred (.bin .extDiff (w "a") (w "b")) (.atom .qvar "what".toList))

example : wfT Gen.asciiE sample = true ∧ wfT Gen.latexE sample = true ∧ wfT Gen.hanE sample = true := by
  decide +kernel

end Narsese.Props.C01
