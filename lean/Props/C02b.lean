/-
  C02 (main theorems) — lexical Narsese survives format-then-parse.

  PROVED (no bound on nesting, arity, name length, number of truth / budget entries):
  for every lexical format satisfying three decidable side conditions — `lFormatOKB` (term level),
  `lItemsOKB` (sentence / task level), `lWsOKB` (the formatter's own spaces are exactly what `idealize_env`
  deletes) — all decided below for the three shipped formats on the tables regenerated from the crate —
  and every lexical value `v` drawn from the format's vocabulary,

      parse (format v) = Ok v          (field for field, same order)

  through the real entry point (`impl_lexical::parse`: `idealize_env`, `parse_items` with its left / right
  segmentation, `segment_term` with its try-in-order alternatives, `MidParseResult::fold`, the entry
  point's own fuel).

  "Drawn from the vocabulary" (`wfLNB`, decidable):
  * atoms: prefix from the dictionary and first match on the atom's own text; name of identifier characters,
    containing no copula and not ending in the beginning of one; a prefix-less atom has a name;
  * compounds: connecter from the dictionary, at least one component; sets: a bracket PAIR from the
    dictionary, at least one component; statements: copula from the dictionary;
  * punctuation from the dictionary; stamp empty or `l ++ content ++ r` for a dictionary pair, content over
    the stamp alphabet; truth / budget entries non-empty strings of digits and dots;
  * a value without budget is not taken for one with a budget, and a bare term is not taken for a line with
    right-hand items (both are evaluations of the segmenters on the value's own text);
  `wsFreeN`: no string of the value contains a whitespace character (those are deleted before parsing).
-/
import Proofs.LRT.Bool
import NarseseModel.Gen.Formats
import Props.C02
set_option autoImplicit false

namespace Narsese.Props.C02
open Narsese LFormat

/-- the side conditions hold for the three shipped lexical formats (re-decided on the regenerated tables) -/
theorem litemsOK_ascii : LItemsOK Gen.asciiL := ⟨⟨by decide +kernel⟩, by decide +kernel⟩
theorem litemsOK_latex : LItemsOK Gen.latexL := ⟨⟨by decide +kernel⟩, by decide +kernel⟩
theorem litemsOK_han : LItemsOK Gen.hanL := ⟨⟨by decide +kernel⟩, by decide +kernel⟩
theorem lws_ascii : lWsOKB Gen.asciiL = true := by decide +kernel
theorem lws_latex : lWsOKB Gen.latexL = true := by decide +kernel
theorem lws_han : lWsOKB Gen.hanL = true := by decide +kernel

/-- **C02** for every format satisfying the side conditions -/
theorem lex_roundtrip (L : LFormat) (hI : LItemsOK L) (hW : lWsOKB L = true) (v : LNarsese)
    (hv : wfLNB L v = true) (hws : wsFreeN L v = true) : L.lparse (L.fmtNarsese v) = .ok v :=
  lparse_fmtNarsese_bool hI hW v hv hws

/-- … and for the three shipped formats -/
theorem lex_roundtrip_ascii (v : LNarsese) (hv : wfLNB Gen.asciiL v = true) (hws : wsFreeN Gen.asciiL v = true) :
    Gen.asciiL.lparse (Gen.asciiL.fmtNarsese v) = .ok v := lex_roundtrip _ litemsOK_ascii lws_ascii v hv hws
theorem lex_roundtrip_latex (v : LNarsese) (hv : wfLNB Gen.latexL v = true) (hws : wsFreeN Gen.latexL v = true) :
    Gen.latexL.lparse (Gen.latexL.fmtNarsese v) = .ok v := lex_roundtrip _ litemsOK_latex lws_latex v hv hws
theorem lex_roundtrip_han (v : LNarsese) (hv : wfLNB Gen.hanL v = true) (hws : wsFreeN Gen.hanL v = true) :
    Gen.hanL.lparse (Gen.hanL.fmtNarsese v) = .ok v := lex_roundtrip _ litemsOK_han lws_han v hv hws

/-- term level, on the parser's own interface: the segmenter reads a printed term back and reports exactly
its length, whatever follows (as long as it does not continue the last atom's name) -/
theorem lex_term_roundtrip (L : LFormat) (hL : LFormatOK L) (t : LTerm) (ht : wfLT L t = true) (rest : Str)
    (hst : StopL L rest) (fuel : Nat) (hfuel : 3 * ((noSp L).fmtTerm t ++ rest).length + 2 ≤ fuel) :
    L.segTerm fuel ((noSp L).fmtTerm t ++ rest) = .ok (t, ((noSp L).fmtTerm t).length) :=
  segTerm_fmtTerm hL t ht rest hst fuel hfuel

/-- the kind of the value survives (lexical half of C15) -/
theorem lex_roundtrip_kind (L : LFormat) (hI : LItemsOK L) (hW : lWsOKB L = true) (v : LNarsese)
    (hv : wfLNB L v = true) (hws : wsFreeN L v = true) :
    (L.lparse (L.fmtNarsese v)).map NValue.kind = .ok v.kind := by
  rw [lex_roundtrip L hI hW v hv hws]; rfl

/-- printing is injective on vocabulary-drawn values -/
theorem lfmt_injective (L : LFormat) (hI : LItemsOK L) (hW : lWsOKB L = true) (v w : LNarsese)
    (hv : wfLNB L v = true) (hw : wfLNB L w = true) (sv : wsFreeN L v = true) (sw : wsFreeN L w = true)
    (h : L.fmtNarsese v = L.fmtNarsese w) : v = w := by
  have h1 := lex_roundtrip L hI hW v hv sv
  have h2 := lex_roundtrip L hI hW w hw sw
  rw [h, h2] at h1
  exact (Res.ok.inj h1).symm

/-! ### non-vacuity -/

def w' (s : String) : LTerm := .atom [] s.toList

/-- `$0.5;0.9$ <(&&, a, {b-c, $x}) --> d>. :!-137: %1;0.9%` -/
def sampleAscii : LNarsese :=
  .task { budget := ["0.5".toList, "0.9".toList],
          sentence := { term := .stmt "-->".toList
                          (.compound "&&".toList (.cons (w' "a")
                            (.cons (.set "{".toList (.cons (w' "b-c") (.cons (.atom "$".toList "x".toList) .nil)) "}".toList) .nil)))
                          (w' "d"),
                        punct := ".".toList, stamp := ":!-137:".toList, truth := ["1".toList, "0.9".toList] } }

example : wfLNB Gen.asciiL sampleAscii = true ∧ wsFreeN Gen.asciiL sampleAscii = true := by decide +kernel

/-- a bare independent variable `$1` — the enum parser's K1 — IS read back by the lexical parser -/
example : wfLNB Gen.asciiL (.term (.atom "$".toList "1".toList)) = true := by decide +kernel

/-- necessity of the non-emptiness hypotheses: an empty compound is printed but not read back -/
example : Gen.asciiL.lparse (Gen.asciiL.fmtNarsese (.term (.compound "&&".toList .nil))) = .err := by
  decide +kernel

end Narsese.Props.C02
